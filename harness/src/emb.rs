//! Order-isomorphic time embeddings (shared by the queue and the runtime suites).
use crate::common::*;
use std::time::Duration;

/// A strictly monotone map from abstract ticks to Durations with emb(0) = 0.
#[derive(Clone, Debug)]
pub struct Emb {
    pub kind: &'static str,
    table: Vec<Duration>,
}

pub const EMB_KINDS: [&str; 7] = ["ns", "w", "year", "wm1", "halfw", "rand", "far"];

impl Emb {
    pub fn new(kind: &'static str, n: usize, w: Duration, max_tick: u64, seed: u64) -> Emb {
        let wn = w.as_nanos() as u64;
        let year = wn.saturating_mul(n as u64);
        let mut rng = Rng(seed ^ 0xE3B);
        let mut table = Vec::with_capacity(max_tick as usize + 1);
        let mut acc: u64 = 0;
        for k in 0..=max_tick {
            if kind == "huge" {
                // ~222 simulated years per tick: beyond 2^64 ns (584 years) from the third tick on
                table.push(Duration::from_secs(k * 7_000_000_000));
                continue;
            }
            if kind == "huge2" {
                // all ticks but 0 beyond 2^64 ns and close together: several of them fall into one round of the buckets
                table.push(if k == 0 { Duration::ZERO } else { { let ns = k as u128 * 610_000_000_000_000_007; Duration::from_secs(19_000_000_000) + Duration::new((ns / 1_000_000_000) as u64, (ns % 1_000_000_000) as u32) } });
                continue;
            }
            let d = match kind {
                "ns" => k,
                "w" => k * wn,
                "year" => k * year,
                "wm1" => if k == 0 { 0 } else { k * wn + (wn - 1) },
                "halfw" => if wn >= 2 { k * (wn / 2) } else { k },
                // odd ticks in the middle of a bucket, even ticks on the next bucket's boundary
                "stagger" => k * wn + if k % 2 == 1 { wn / 2 } else { 0 },
                "rand" => {
                    if k > 0 {
                        // mixture: 1ns steps, sub-bucket steps, bucket multiples, year multiples
                        acc += match rng.below(5) {
                            0 => 1,
                            1 => 1 + rng.below(wn.max(2)),
                            2 => wn * (1 + rng.below(3)),
                            3 => year * (1 + rng.below(2)),
                            _ => year + 1 + rng.below(wn.max(2)),
                        };
                    }
                    acc
                }
                "far" => {
                    // like "w", but the last tick is a far-future outlier (bounded: the scan is
                    // one bucket per step, keep it below ~2*10^5 steps)
                    if k == max_tick && k > 0 { k * wn + 200_000 * wn + 3 } else { k * wn }
                }
                _ => unreachable!(),
            };
            table.push(Duration::from_nanos(d));
        }
        Emb { kind, table }
    }
    pub fn map(&self, k: u64) -> Duration {
        self.table[k as usize]
    }
    pub fn inv(&self, d: Duration) -> Option<u64> {
        self.table.binary_search(&d).ok().map(|i| i as u64)
    }
}

