//! Suite `rt`: des::runtime::Runtime (generic application, scripted events) against Runtime.tla.
//! Serves C02 (clock), C03 (ties at runtime level), C10 (stepping), C11 (limits).
use crate::common::*;
use crate::emb::Emb;
use des::prelude::*;
use des::runtime::{Profiler, RuntimeLimit};
use serde_json::{json, Value};
use std::cell::RefCell;
use std::collections::HashMap;
use std::panic::{catch_unwind, AssertUnwindSafe};
use std::time::Duration;

#[derive(Default)]
struct Script {
    entries: Vec<Value>,
    pos: usize,
    nid: u32,
    fail: Option<Value>,
    handled: Vec<(u32, u64)>,
    emb: Option<Emb>,
    checks: u64,
    // twin mode: program keyed by event id
    prog: Option<HashMap<u32, Vec<i64>>>,
    use_abs: bool,
    // record mode (direction V): the handler draws its follow-ups at random and logs what it did
    rec: Option<Rng>,
    rec_budget: u32,
    rec_log: Vec<Value>,
    /// the first handler of this replay starts another thread that builds a runtime (it must wait for the simulation
    /// lock and must not disturb the running simulation's clock)
    probe_concurrent_build: bool,
}

static PROBES: std::sync::Mutex<Vec<std::thread::JoinHandle<()>>> = std::sync::Mutex::new(Vec::new());

/// Another thread calls Builder::build with a different start time while this thread is inside an event handler.
fn concurrent_build_probe(start: Duration) {
    let (tx, rx) = std::sync::mpsc::channel::<()>();
    let h = std::thread::spawn(move || {
        let _ = tx.send(());
        // blocks until the running simulation has been dropped
        let rt = Builder::seeded(7).quiet().start_time(st(start)).build(App);
        drop(rt);
    });
    let _ = rx.recv();
    std::thread::sleep(Duration::from_millis(2));
    PROBES.lock().unwrap().push(h);
}

fn join_probes() {
    let hs: Vec<_> = std::mem::take(&mut *PROBES.lock().unwrap());
    for h in hs {
        let _ = h.join();
    }
}

thread_local! {
    static SCRIPT: RefCell<Script> = RefCell::new(Script::default());
}

struct App;
impl Application for App {
    type EventSet = Ev;
    type Lifecycle = ();
}

struct Ev(u32);

fn st(d: Duration) -> SimTime {
    SimTime::from_duration(d)
}

impl Event<App> for Ev {
    fn handle(self, rt: &mut Runtime<App>) {
        let now = SimTime::now();
        let id = self.0;
        // decide what to do
        let (reqs, tick, failed): (Vec<i64>, u64, bool) = SCRIPT.with(|s| {
            let mut s = s.borrow_mut();
            if s.fail.is_some() {
                return (vec![], 0, true);
            }
            let emb = s.emb.clone().unwrap();
            let tick = match emb.inv(*now) {
                Some(t) => t,
                None => {
                    s.fail = Some(json!({"field": "handler clock is not a scheduled timestamp", "got": format!("{now:?}"), "event": id}));
                    return (vec![], 0, true);
                }
            };
            s.handled.push((id, tick));
            if s.rec.is_some() {
                let budget = s.rec_budget;
                let rng = s.rec.as_mut().unwrap();
                let n = if budget == 0 { 0 } else { rng.below(4) };
                let mut reqs = Vec::new();
                for _ in 0..n {
                    let d = *rng.pick(&[0i64, 0, 1, 1, 2, 3, 5, -1]);
                    if d == -1 && tick == 0 {
                        continue;
                    }
                    reqs.push(d);
                }
                let used = reqs.iter().filter(|d| **d >= 0).count() as u32;
                s.rec_budget = budget.saturating_sub(used);
                return (reqs, tick, false);
            }
            if let Some(prog) = &s.prog {
                // uninterrupted twin: program keyed by event id
                return match prog.get(&id) {
                    Some(r) => (r.clone(), tick, false),
                    None => {
                        s.fail = Some(json!({"field": "twin run dispatched an event the stepped run never dispatched", "event": id}));
                        (vec![], tick, true)
                    }
                };
            }
            let pos = s.pos;
            let Some(e) = s.entries.get(pos).cloned() else {
                s.fail = Some(json!({"field": "event dispatched after the end of the behaviour", "event": id, "t": tick}));
                return (vec![], tick, true);
            };
            if e["op"] != "handle" {
                s.fail = Some(json!({"field": "an event was dispatched where the contract dispatches none", "expected_next": e, "event": id, "t": tick, "step": pos}));
                return (vec![], tick, true);
            }
            s.pos += 1;
            s.checks += 3;
            if e["id"].as_u64() != Some(id as u64) || e["t"].as_u64() != Some(tick) {
                s.fail = Some(json!({"field": "dispatch order / timestamp", "expected": {"id": e["id"], "t": e["t"]}, "got": {"id": id, "t": tick}, "step": pos}));
                return (vec![], tick, true);
            }
            let reqs = e["reqs"].as_array().map(|a| a.iter().map(|x| x.as_i64().unwrap()).collect()).unwrap_or_default();
            (reqs, tick, false)
        });
        if failed {
            return;
        }
        if rt.sim_time() != now {
            SCRIPT.with(|s| s.borrow_mut().fail = Some(json!({"field": "Runtime::sim_time differs from SimTime::now in handler"})));
            return;
        }
        if SCRIPT.with(|s| std::mem::take(&mut s.borrow_mut().probe_concurrent_build)) {
            concurrent_build_probe(*now + Duration::from_secs(1_000_000));
            if SimTime::now() != now {
                SCRIPT.with(|s| s.borrow_mut().fail = Some(json!({"field": "SimTime::now changed inside a handler while another thread was building a runtime",
                    "expected": format!("{now:?}"), "got": format!("{:?}", SimTime::now())})));
                return;
            }
        }
        let (emb, use_abs) = SCRIPT.with(|s| {
            let s = s.borrow();
            (s.emb.clone().unwrap(), s.use_abs)
        });
        let recording = SCRIPT.with(|s| s.borrow().rec.is_some());
        let mut rec_ids: Vec<i64> = Vec::new();
        let reqs_logged = reqs.clone();
        for d in reqs {
            if d >= 0 {
                let nid = SCRIPT.with(|s| {
                    let mut s = s.borrow_mut();
                    let n = s.nid;
                    s.nid += 1;
                    n
                });
                let target = emb.map(tick + d as u64);
                let r = catch_unwind(AssertUnwindSafe(|| {
                    if use_abs || d == 0 {
                        if d == 0 && !use_abs {
                            rt.add_event_in(Ev(nid), Duration::ZERO);
                        } else {
                            rt.add_event(Ev(nid), st(target));
                        }
                    } else {
                        rt.add_event_in(Ev(nid), target - *now);
                    }
                }));
                if r.is_err() {
                    SCRIPT.with(|s| s.borrow_mut().fail = Some(json!({"field": "scheduling at or after the current time panicked", "delay": d, "t": tick, "event": id})));
                    return;
                }
                rec_ids.push(nid as i64);
            } else {
                // a request before the current simulated time must be rejected with a panic
                let past = emb.map(tick - 1);
                let before = rt.num_events_remaining();
                let r = catch_unwind(AssertUnwindSafe(|| rt.add_event(Ev(9_999_999), st(past))));
                let after = rt.num_events_remaining();
                SCRIPT.with(|s| s.borrow_mut().checks += 2);
                if r.is_ok() {
                    SCRIPT.with(|s| s.borrow_mut().fail = Some(json!({"field": "add_event before the current time was accepted", "t": tick, "event": id})));
                    return;
                }
                if before != after {
                    SCRIPT.with(|s| s.borrow_mut().fail = Some(json!({"field": "rejected add_event changed the event set", "t": tick})));
                    return;
                }
                rec_ids.push(-1);
            }
        }
        if recording {
            SCRIPT.with(|s| s.borrow_mut().rec_log.push(json!({"op": "handle", "id": id, "t": tick, "reqs": reqs_logged, "ids": rec_ids})));
        }
    }
}

fn build_limit(v: &Value, emb: &Emb) -> RuntimeLimit {
    match v["k"].as_str().unwrap() {
        "none" => RuntimeLimit::None,
        "ec" => RuntimeLimit::EventCount(v["n"].as_u64().unwrap() as usize),
        "st" => RuntimeLimit::SimTime(st(emb.map(v["t"].as_u64().unwrap()))),
        "and" => RuntimeLimit::CombinedAnd(Box::new(build_limit(&v["l"], emb)), Box::new(build_limit(&v["r"], emb))),
        "or" => RuntimeLimit::CombinedOr(Box::new(build_limit(&v["l"], emb)), Box::new(build_limit(&v["r"], emb))),
        _ => unreachable!(),
    }
}

fn builder_for(cfgv: &Value, n: usize, w: Duration, emb: &Emb, variant: usize) -> Builder {
    // the BinaryHeap backend (harness_heap, des without the `cqueue` feature) has no queue parameters
    #[cfg(not(vh_heap))]
    let mut b = Builder::seeded(1).quiet().cqueue_options(n, w);
    #[cfg(vh_heap)]
    let mut b = {
        let _ = (n, w);
        Builder::seeded(1).quiet()
    };
    let start = cfgv["start"].as_u64().unwrap();
    if start > 0 || variant % 2 == 0 {
        b = b.start_time(st(emb.map(start)));
    }
    let lim = &cfgv["limit"];
    // Builder::max_itr / max_time / limit accumulate with Or: a left-nested Or chain can be produced by
    // successive builder calls (odd variants), or passed as one tree (even variants)
    fn chain<'a>(l: &'a Value, out: &mut Vec<&'a Value>) {
        if l["k"] == "or" {
            chain(&l["l"], out);
            out.push(&l["r"]);
        } else {
            out.push(l);
        }
    }
    if lim["k"] == "none" {
        return b;
    }
    if variant % 2 == 1 {
        let mut parts = Vec::new();
        chain(lim, &mut parts);
        for p in parts {
            b = match p["k"].as_str().unwrap() {
                "ec" => b.max_itr(p["n"].as_u64().unwrap() as usize),
                "st" => b.max_time(st(emb.map(p["t"].as_u64().unwrap()))),
                _ => b.limit(build_limit(p, emb)),
            };
        }
    } else {
        b = b.limit(build_limit(lim, emb));
    }
    b
}

fn take_fail() -> Option<Value> {
    SCRIPT.with(|s| s.borrow_mut().fail.take())
}

fn check_finish(res: Result<(App, SimTime, Profiler<Ev>), RuntimeError>, e: &Value, emb: &Emb, step: usize) -> Result<u64, Value> {
    let Ok((_app, time, prof)) = res else {
        return Err(json!({"field": "finish/run returned Err", "step": step}));
    };
    let exp_t = e["time"].as_u64().unwrap();
    if *time != emb.map(exp_t) {
        return Err(json!({"field": "end time", "expected": exp_t, "got": format!("{:?}", emb.inv(*time)), "step": step}));
    }
    if prof.event_count as u64 != e["event_count"].as_u64().unwrap() {
        return Err(json!({"field": "event_count", "expected": e["event_count"], "got": prof.event_count, "step": step}));
    }
    let mut exp: Vec<(u64, u64)> = e["remaining"].as_array().unwrap().iter().map(|p| (p[0].as_u64().unwrap(), p[1].as_u64().unwrap())).collect();
    let mut got: Vec<(u64, u64)> = Vec::new();
    for (ev, t) in &prof.remaining {
        match emb.inv(**t) {
            Some(tt) => got.push((ev.0 as u64, tt)),
            None => return Err(json!({"field": "remaining event carries a timestamp that was never scheduled", "got": format!("{t:?}"), "step": step})),
        }
    }
    exp.sort_unstable();
    got.sort_unstable();
    if exp != got {
        return Err(json!({"field": "remaining events (id, time) multiset", "expected": exp, "got": got, "step": step}));
    }
    Ok(3)
}

/// Replays one behaviour under one configuration. Returns comparisons made.
fn replay_one(beh: &[Value], n: usize, w: Duration, emb: &Emb, variant: usize) -> Result<u64, Value> {
    let cfgv = &beh[0];
    SCRIPT.with(|s| {
        *s.borrow_mut() = Script { entries: beh.to_vec(), pos: 1, emb: Some(emb.clone()), use_abs: variant % 3 == 0,
                                   probe_concurrent_build: variant % 499 == 5, ..Default::default() }
    });
    let mut rt = Some(builder_for(cfgv, n, w, emb, variant).build(App));
    let mut checks = 0u64;
    let seeded = cfgv["seed"] == true;
    if seeded {
        let t0 = st(emb.map(cfgv["start"].as_u64().unwrap()));
        if catch_unwind(AssertUnwindSafe(|| rt.as_mut().unwrap().add_event(Ev(0), t0))).is_err() {
            return Err(json!({"field": "add_event at the start time panicked"}));
        }
        SCRIPT.with(|s| s.borrow_mut().nid = 1);
    }
    // pure run: [cfg, add_ext*, start, step_all, handle*, end_step, finish] can use Runtime::run()
    let ops: Vec<&str> = beh.iter().map(|e| e["op"].as_str().unwrap()).collect();
    let nsteps = ops.iter().filter(|o| o.starts_with("step_")).count();
    let start_idx = ops.iter().position(|o| *o == "start").unwrap_or(ops.len());
    let ext_after_start = ops.iter().skip(start_idx).any(|o| *o == "add_ext");
    let pure = nsteps == 1 && ops.contains(&"step_all") && !ext_after_start && ops.last() == Some(&"finish");
    let use_run = pure && variant % 2 == 0;

    loop {
        let pos = SCRIPT.with(|s| s.borrow().pos);
        if pos >= beh.len() {
            break;
        }
        let e = &beh[pos];
        let op = e["op"].as_str().unwrap();
        match op {
            "add_ext" => {
                SCRIPT.with(|s| s.borrow_mut().pos += 1);
                let t = e["t"].as_u64().unwrap();
                let ok = e["res"] == "ok";
                let r = rt.as_mut().unwrap();
                let id = if ok { e["id"].as_u64().unwrap() as u32 } else { 9_999_998 };
                let res = catch_unwind(AssertUnwindSafe(|| r.add_event(Ev(id), st(emb.map(t)))));
                if ok {
                    SCRIPT.with(|s| s.borrow_mut().nid += 1);
                }
                checks += 2;
                match (res.is_ok(), ok) {
                    (true, false) => return Err(json!({"field": "add_event before the current simulated time was accepted", "t": t, "now": format!("{:?}", emb.inv(*SimTime::now())), "step": pos})),
                    (false, true) => return Err(json!({"field": "add_event at or after the current simulated time panicked", "t": t, "now": format!("{:?}", emb.inv(*SimTime::now())), "step": pos})),
                    _ => {}
                }
                if r.num_events_remaining() as u64 != e["remaining"].as_u64().unwrap() {
                    return Err(json!({"field": "num_events_remaining after add_event", "expected": e["remaining"], "got": r.num_events_remaining(), "step": pos}));
                }
                let nid = SCRIPT.with(|s| s.borrow().nid) as usize;
                if r.num_events_scheduled() != nid {
                    return Err(json!({"field": "num_events_scheduled (number of accepted add_event calls)", "expected": nid, "got": r.num_events_scheduled(), "step": pos}));
                }
                let started = pos > start_idx;
                if r.was_started() != started {
                    return Err(json!({"field": "was_started", "expected": started, "got": r.was_started(), "step": pos}));
                }
            }
            "start" => {
                SCRIPT.with(|s| s.borrow_mut().pos += 1);
                if !use_run {
                    let r = rt.as_mut().unwrap();
                    if catch_unwind(AssertUnwindSafe(|| r.start())).is_err() {
                        return Err(json!({"field": "Runtime::start panicked", "step": pos}));
                    }
                }
            }
            "step_n" | "step_until" | "step_all" => {
                SCRIPT.with(|s| s.borrow_mut().pos += 1);
                if use_run {
                    // run() = start + dispatch_all + finish; the handle entries are consumed inside
                    let rr = rt.take().unwrap();
                    let Ok(res) = catch_unwind(AssertUnwindSafe(|| rr.run())) else {
                        return Err(json!({"field": "Runtime::run panicked", "step": pos}));
                    };
                    if let Some(f) = take_fail() {
                        return Err(f);
                    }
                    let p = SCRIPT.with(|s| s.borrow().pos);
                    if beh[p]["op"] != "end_step" {
                        return Err(json!({"field": "run stopped before the contract's stopping point", "expected_next": beh[p], "step": p}));
                    }
                    let fin = &beh[p + 1];
                    checks += check_finish(res, fin, emb, p + 1)?;
                    checks += SCRIPT.with(|s| s.borrow().checks);
                    return Ok(checks);
                }
                let r = rt.as_mut().unwrap();
                // "dispatches exactly n events (or all that remain)": when the contract's step exhausts the event set, any
                // larger n is the same request - including the largest one
                let exhausts = beh[pos + 1..].iter().find(|x| x["op"] == "end_step").map(|x| x["remaining"] == 0).unwrap_or(false);
                let res = catch_unwind(AssertUnwindSafe(|| match op {
                    "step_n" => {
                        let n = if exhausts && variant % 4 == 1 { usize::MAX } else if exhausts && variant % 4 == 3 { usize::MAX / 2 + 7 } else { e["n"].as_u64().unwrap() as usize };
                        r.dispatch_n_events(n);
                    }
                    "step_until" => {
                        r.dispatch_events_until(st(emb.map(e["t"].as_u64().unwrap())));
                    }
                    _ => r.dispatch_all(),
                }));
                if res.is_err() {
                    return Err(json!({"field": "dispatch call panicked", "step": pos}));
                }
                if let Some(f) = take_fail() {
                    return Err(f);
                }
                let p = SCRIPT.with(|s| s.borrow().pos);
                let end = &beh[p];
                if end["op"] != "end_step" {
                    return Err(json!({"field": "dispatch call returned before the contract's stopping point", "expected_next": end, "step": p}));
                }
                SCRIPT.with(|s| s.borrow_mut().pos += 1);
                let r = rt.as_ref().unwrap();
                checks += 3;
                if r.num_events_dispatched() as u64 != end["dispatched"].as_u64().unwrap() {
                    return Err(json!({"field": "num_events_dispatched", "expected": end["dispatched"], "got": r.num_events_dispatched(), "step": p}));
                }
                if r.num_events_remaining() as u64 != end["remaining"].as_u64().unwrap() {
                    return Err(json!({"field": "num_events_remaining while paused", "expected": end["remaining"], "got": r.num_events_remaining(), "step": p}));
                }
                if *r.sim_time() != emb.map(end["sim_time"].as_u64().unwrap()) {
                    return Err(json!({"field": "sim_time while paused", "expected": end["sim_time"], "got": format!("{:?}", emb.inv(*r.sim_time())), "step": p}));
                }
                let nid = SCRIPT.with(|s| s.borrow().nid) as usize;
                if r.num_events_scheduled() != nid {
                    return Err(json!({"field": "num_events_scheduled (number of accepted add_event calls)", "expected": nid, "got": r.num_events_scheduled(), "step": p}));
                }
                if !r.was_started() {
                    return Err(json!({"field": "was_started", "expected": true, "got": false, "step": p}));
                }
            }
            "finish" => {
                SCRIPT.with(|s| s.borrow_mut().pos += 1);
                let rr = rt.take().unwrap();
                let Ok(res) = catch_unwind(AssertUnwindSafe(|| rr.finish())) else {
                    return Err(json!({"field": "Runtime::finish panicked", "step": pos}));
                };
                checks += check_finish(res, e, emb, pos)?;
            }
            "handle" => {
                return Err(json!({"field": "the contract dispatches an event here but the runtime did not", "expected": e, "step": pos}));
            }
            _ => unreachable!("op {op}"),
        }
    }
    drop(rt);
    checks += SCRIPT.with(|s| s.borrow().checks);

    // C10, stated without the spec: a stepped run that ends with dispatch_all + finish handles exactly
    // what a single uninterrupted run() of the same program handles.
    let ends_all = {
        let idx: Vec<usize> = ops.iter().enumerate().filter(|(_, o)| o.starts_with("step_")).map(|(i, _)| i).collect();
        !idx.is_empty() && ops[*idx.last().unwrap()] == "step_all" && ops.last() == Some(&"finish")
    };
    if nsteps >= 2 && ends_all && !ext_after_start {
        let stepped = SCRIPT.with(|s| s.borrow().handled.clone());
        let mut prog = HashMap::new();
        for e in beh.iter().filter(|e| e["op"] == "handle") {
            prog.insert(e["id"].as_u64().unwrap() as u32, e["reqs"].as_array().unwrap().iter().map(|x| x.as_i64().unwrap()).collect::<Vec<i64>>());
        }
        SCRIPT.with(|s| *s.borrow_mut() = Script { emb: Some(emb.clone()), prog: Some(prog), use_abs: variant % 3 == 0, ..Default::default() });
        let mut rt2 = builder_for(cfgv, n, w, emb, variant).build(App);
        if seeded {
            rt2.add_event(Ev(0), st(emb.map(cfgv["start"].as_u64().unwrap())));
            SCRIPT.with(|s| s.borrow_mut().nid = 1);
        }
        for e in beh.iter().take(start_idx).filter(|e| e["op"] == "add_ext" && e["res"] == "ok") {
            let id = e["id"].as_u64().unwrap() as u32;
            if catch_unwind(AssertUnwindSafe(|| rt2.add_event(Ev(id), st(emb.map(e["t"].as_u64().unwrap()))))).is_err() {
                return Err(json!({"field": "twin: add_event panicked"}));
            }
            SCRIPT.with(|s| s.borrow_mut().nid += 1);
        }
        if catch_unwind(AssertUnwindSafe(|| rt2.run())).is_err() {
            return Err(json!({"field": "twin: Runtime::run panicked"}));
        }
        if let Some(f) = take_fail() {
            return Err(f);
        }
        let un = SCRIPT.with(|s| s.borrow().handled.clone());
        checks += 1;
        if un != stepped {
            return Err(json!({"field": "stepped run differs from the uninterrupted run of the same program", "stepped": stepped, "uninterrupted": un}));
        }
    }
    Ok(checks)
}

fn grid(tier: &str, max_tick: u64) -> Vec<(usize, Duration, Emb)> {
    let ns: &[usize] = if tier == "thorough" { &[1, 2, 3, 7, 32] } else { &[1, 2, 3] };
    let ws: &[u64] = if tier == "thorough" { &[1, 1_000, 2_500_000, 1_000_000_000] } else { &[1, 2_500_000] };
    let kinds: &[&'static str] = if tier == "thorough" { &["ns", "w", "year", "wm1", "rand", "stagger"] } else { &["w", "year", "rand", "stagger"] };
    let mut out = Vec::new();
    for &n in ns {
        for &w in ws {
            for kind in kinds {
                let wd = Duration::from_nanos(w);
                out.push((n, wd, Emb::new(kind, n, wd, max_tick, (n as u64) << 20 | w)));
            }
        }
    }
    // far-future timestamps (hundreds of simulated years) with wide buckets
    let wh = Duration::from_secs(1 << 32);
    out.push((8, wh, Emb::new("huge", 8, wh, max_tick, 3)));
    // the default parameterisation of the Builder
    let wd = Duration::from_secs_f64(0.0025);
    out.push((1028, wd, Emb::new("w", 1028, wd, max_tick, 7)));
    out
}

fn classify(beh: &[Value]) -> (bool, bool, bool) {
    // (has tie among handled events, has a cut inside a tie group / multi-step, has a limit that stops the run early)
    let handled: Vec<u64> = beh.iter().filter(|e| e["op"] == "handle").map(|e| e["t"].as_u64().unwrap()).collect();
    let tie = handled.windows(2).any(|w| w[0] == w[1]);
    let steps = beh.iter().filter(|e| e["op"].as_str().unwrap().starts_with("step_")).count();
    let early = beh.last().map(|e| e["remaining"].as_array().map(|a| !a.is_empty()).unwrap_or(false)).unwrap_or(false);
    (tie, steps >= 2, early)
}

pub fn replay(args: &[String]) {
    let path = &args[0];
    let tier = arg_value(args, "--tier").unwrap_or_else(|| "quick".into());
    // the embeddings are tables over ticks: large enough for every time that occurs in the file (events are scheduled up to
    // two ticks past the last time the contract dispatches)
    let mut max_tick = arg_u64(args, "--max-tick", 12);
    for_each_line(path, |_, v| {
        watchdog::tick();
        for e in v.as_array().unwrap() {
            for k in ["t", "time", "sim_time", "start"] {
                if let Some(t) = e[k].as_u64() {
                    max_tick = max_tick.max(t + 3);
                }
            }
        }
    });
    let cfgs = grid(&tier, max_tick);
    let mut s = Summary::default();
    s.extra.insert("configs".into(), json!(cfgs.len()));
    for_each_line(path, |li, v| {
        let beh = v.as_array().unwrap().clone();
        s.behaviours += 1;
        let (tie, multi, early) = classify(&beh);
        if tie {
            s.bump("with_tie", 1);
        }
        if multi {
            s.bump("multi_step", 1);
        }
        if early {
            s.bump("stopped_with_remaining", 1);
        }
        if tie || multi || early {
            s.nontrivial += 1;
        }
        if li < 2 {
            s.sample(v.clone());
        }
        for (ci, (n, w, emb)) in cfgs.iter().enumerate() {
            if *n >= 32 && (ci + li) % 17 != 0 {
                continue;
            }
            s.replays += 1;
            watchdog::enter(|| json!({"behaviour": v, "cfg": {"n": n, "w_ns": w.as_nanos() as u64, "emb": emb.kind}}).to_string());
            let res = replay_one(&beh, *n, *w, emb, ci + li);
            join_probes();      // the runtime of this replay is gone: the waiting builder gets the lock and finishes
            match res {
                Ok(c) => s.checks += c,
                Err(mut m) => {
                    m["cfg"] = json!({"n": n, "w_ns": w.as_nanos() as u64, "emb": emb.kind, "variant": ci + li});
                    m["behaviour"] = v.clone();
                    s.mismatch(m);
                }
            }
        }
    });
    s.print();
}


// ------------------------------------------------------------------ direction V
fn rnd_limit(rng: &mut Rng, depth: u32) -> Value {
    match if depth == 0 { rng.below(3) } else { rng.below(5) } {
        0 => json!({"k": "none"}),
        1 => json!({"k": "ec", "n": rng.below(60)}),
        2 => json!({"k": "st", "t": rng.below(40)}),
        3 => json!({"k": "and", "l": rnd_limit(rng, depth - 1), "r": rnd_limit(rng, depth - 1)}),
        _ => json!({"k": "or", "l": rnd_limit(rng, depth - 1), "r": rnd_limit(rng, depth - 1)}),
    }
}

/// `vh rt record --seed S --runs R --out F`: long random programs, random step schedules, external adds.
pub fn record(args: &[String]) {
    use std::io::Write;
    let seed = arg_u64(args, "--seed", 1);
    let runs = arg_u64(args, "--runs", 20);
    let outp = arg_value(args, "--out").expect("--out");
    let mut rng = Rng(seed.wrapping_mul(0xD1B5_4A32_D192_ED03) ^ 0x2e7);
    let mut out = std::io::BufWriter::new(std::fs::File::create(&outp).unwrap());
    let mut s = Summary::default();
    for r in 0..runs {
        watchdog::enter(|| json!({"rt_record_run": r, "seed": seed}).to_string());
        let n = *rng.pick(&[1usize, 2, 3, 7, 32]);
        let w = Duration::from_nanos(*rng.pick(&[1u64, 1_000, 2_500_000, 1_000_000_000]));
        let kind = *rng.pick(&["w", "ns", "rand", "year", "wm1"]);
        let emb = Emb::new(kind, n, w, 3000, seed ^ r);
        let start = *rng.pick(&[0u64, 0, 3]);
        let limit = if rng.chance(1, 2) { json!({"k": "none"}) } else { rnd_limit(&mut rng, 2) };
        let cfgv = json!({"op": "cfg", "start": start, "limit": limit, "seed": true, "backend": if cfg!(vh_heap) { "heap" } else { "cqueue" }});
        let mut lines: Vec<Value> = vec![cfgv.clone()];
        SCRIPT.with(|sc| {
            *sc.borrow_mut() = Script { emb: Some(emb.clone()), use_abs: rng.chance(1, 2), rec: Some(Rng(seed ^ (r << 8) ^ 0x77)), rec_budget: 60 + rng.below(120) as u32, nid: 1, ..Default::default() }
        });
        let res = catch_unwind(AssertUnwindSafe(|| {
            let mut rt = builder_for(&cfgv, n, w, &emb, 0).build(App);
            rt.add_event(Ev(0), st(emb.map(start)));
            let mut ext = |rt: &mut Runtime<App>, rng: &mut Rng, lines: &mut Vec<Value>| {
                let now = emb.inv(*rt.sim_time()).unwrap_or(0);
                let t = (now + rng.below(5)).saturating_sub(rng.below(2));
                let id = SCRIPT.with(|sc| sc.borrow().nid);
                let ok = catch_unwind(AssertUnwindSafe(|| rt.add_event(Ev(id), st(emb.map(t))))).is_ok();
                if ok {
                    SCRIPT.with(|sc| sc.borrow_mut().nid += 1);
                }
                lines.push(json!({"op": "add_ext", "t": t, "res": if ok { "ok" } else { "panic" }, "id": if ok { id } else { 0 }, "remaining": rt.num_events_remaining()}));
            };
            for _ in 0..rng.below(3) {
                ext(&mut rt, &mut rng, &mut lines);
            }
            rt.start();
            lines.push(json!({"op": "start"}));
            let calls = 1 + rng.below(6);
            for c in 0..calls {
                let last = c + 1 == calls;
                let now = emb.inv(*rt.sim_time()).unwrap_or(0);
                match if last { 2 } else { rng.below(3) } {
                    0 => {
                        let k = 1 + rng.below(9);
                        lines.push(json!({"op": "step_n", "n": k}));
                        rt.dispatch_n_events(k as usize);
                    }
                    1 => {
                        let t = now + rng.below(7);
                        lines.push(json!({"op": "step_until", "t": t}));
                        rt.dispatch_events_until(st(emb.map(t)));
                    }
                    _ => {
                        lines.push(json!({"op": "step_all"}));
                        rt.dispatch_all();
                    }
                }
                lines.extend(SCRIPT.with(|sc| std::mem::take(&mut sc.borrow_mut().rec_log)));
                lines.push(json!({"op": "end_step", "dispatched": rt.num_events_dispatched(), "remaining": rt.num_events_remaining(),
                                  "sim_time": emb.inv(*rt.sim_time()).map(|x| x as i64).unwrap_or(-1)}));
                if !last && rng.chance(1, 2) {
                    ext(&mut rt, &mut rng, &mut lines);
                }
            }
            let fin = rt.finish();
            match fin {
                Ok((_, t, p)) => {
                    let rem: Vec<Value> = p.remaining.iter().map(|(e, t)| json!([e.0, emb.inv(**t).map(|x| x as i64).unwrap_or(-1)])).collect();
                    lines.push(json!({"op": "finish", "time": emb.inv(*t).map(|x| x as i64).unwrap_or(-1), "event_count": p.event_count, "remaining": rem}));
                }
                Err(_) => lines.push(json!({"op": "finish", "time": -1, "event_count": 0, "remaining": []})),
            }
        }));
        s.behaviours += 1;
        if res.is_err() {
            s.mismatch(json!({"field": "a runtime call panicked in a random program", "run": r, "seed": seed, "lines_so_far": lines.len()}));
        }
        if let Some(f) = take_fail() {
            s.mismatch(json!({"field": f["field"], "detail": f, "run": r, "seed": seed}));
        }
        for l in &lines {
            writeln!(out, "{l}").unwrap();
        }
    }
    out.flush().unwrap();
    s.print();
}

// ------------------------------------------------------------------ SimTime arithmetic (Time.tla)
/// `vh rt time <file>`: the case table of Time.tla evaluated on des::time::SimTime under additive embeddings
/// (tick -> k * unit for units from 1 ns to 200 years)
pub fn time_cases(args: &[String]) {
    let path = &args[0];
    let mut s = Summary::default();
    let units: [Duration; 6] = [Duration::from_nanos(1), Duration::from_nanos(999_999_999), Duration::from_secs(1), Duration::from_millis(2_500),
                                Duration::from_secs(86_400 * 365), Duration::from_secs(6_400_000_000)];
    for_each_line(path, |_li, v| {
        s.behaviours += 1;
        for (ui, unit) in units.iter().enumerate() {
            for c in v.as_array().unwrap() {
                s.replays += 1;
                let t = |k: &Value| SimTime::from_duration(*unit * k.as_u64().unwrap() as u32);
                let dur = |k: &Value| *unit * k.as_u64().unwrap() as u32;
                let (a, b, d) = (t(&c["a"]), t(&c["b"]), dur(&c["d"]));
                let opt = |o: &Value| if o["ok"] == true { Some(*unit * o["v"].as_u64().unwrap() as u32) } else { None };
                let mut bad: Option<(&str, String, String)> = None;
                let mut chk = |name: &'static str, exp: String, got: String| {
                    if exp != got && bad.is_none() {
                        bad = Some((name, exp, got));
                    }
                };
                let cmp = match a.cmp(&b) {
                    std::cmp::Ordering::Less => "lt",
                    std::cmp::Ordering::Equal => "eq",
                    std::cmp::Ordering::Greater => "gt",
                };
                chk("Ord", c["cmp"].as_str().unwrap().to_string(), cmp.to_string());
                chk("PartialEq", (c["cmp"] == "eq").to_string(), (a == b).to_string());
                chk("checked_duration_since", format!("{:?}", opt(&c["since"])), format!("{:?}", a.checked_duration_since(b)));
                chk("saturating_duration_since", format!("{:?}", dur(&c["sat"])), format!("{:?}", a.saturating_duration_since(b)));
                chk("duration_diff", format!("{:?}", dur(&c["diff"])), format!("{:?}", a.duration_diff(b)));
                chk("eq_approx", c["approx"].to_string(), a.eq_approx(b, d).to_string());
                chk("checked_add", format!("{:?}", opt(&c["add"]).map(SimTime::from_duration)), format!("{:?}", a.checked_add(d)));
                chk("checked_sub", format!("{:?}", opt(&c["sub"]).map(SimTime::from_duration)), format!("{:?}", a.checked_sub(d)));
                let since = catch_unwind(AssertUnwindSafe(|| a.duration_since(b))).ok();
                chk("duration_since (panics iff earlier is later)", format!("{:?}", opt(&c["since"])), format!("{since:?}"));
                let minus = catch_unwind(AssertUnwindSafe(|| a - b)).ok();
                chk("SimTime - SimTime", format!("{:?}", opt(&c["since"])), format!("{minus:?}"));
                let sub = catch_unwind(AssertUnwindSafe(|| a - d)).ok();
                chk("SimTime - Duration (panics iff it would be negative)", format!("{:?}", opt(&c["sub"]).map(SimTime::from_duration)), format!("{sub:?}"));
                let add = catch_unwind(AssertUnwindSafe(|| a + d)).ok();
                chk("SimTime + Duration", format!("{:?}", opt(&c["add"]).map(SimTime::from_duration)), format!("{add:?}"));
                // the clock: now() returns what was published, elapsed() is measured against it
                s.checks += 12;
                if let Some((name, exp, got)) = bad {
                    s.mismatch(json!({"field": format!("SimTime arithmetic: {name}"), "expected": exp, "got": got, "case": c, "unit_ns": unit.as_nanos() as u64, "unit_index": ui, "behaviour": [c]}));
                }
            }
        }
    });
    s.print();
}
