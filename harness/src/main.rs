mod body;
mod common;
mod emb;
mod alloc;
mod asyncm;
mod fes;
mod gates;
mod ndl;
mod net;
mod props;
mod repro;
mod rt;
mod tree;

fn main() {
    let args: Vec<String> = std::env::args().skip(1).collect();
    if args.len() < 2 {
        eprintln!("usage: vh <suite> <mode> [args]");
        std::process::exit(3);
    }
    common::silence_panics();
    common::watchdog::start(common::arg_u64(&args, "--hang-secs", 20));
    match (args[0].as_str(), args[1].as_str()) {
        ("fes", "replay") => fes::replay(&args[2..]),
        ("fes", "record") => fes::record(&args[2..]),
        ("rt", "replay") => rt::replay(&args[2..]),
        ("rt", "record") => rt::record(&args[2..]),
        ("rt", "time") => rt::time_cases(&args[2..]),
        ("props", "replay") => props::replay(&args[2..]),
        ("props", "slots") => props::replay_slots(&args[2..]),
        ("body", "replay") => body::replay(&args[2..]),
        ("asyncm", "replay") => asyncm::replay(&args[2..]),
        ("repro", "run") => repro::run(&args[2..]),
        ("ndl", "replay") => ndl::replay(&args[2..]),
        ("ndl", "grammar") => ndl::grammar(&args[2..]),
        ("ndl", "raw") => ndl::raw(&args[2..]),
        ("tree", "replay") => tree::replay(&args[2..]),
        ("tree", "paths") => tree::paths(&args[2..]),
        ("net", "replay") => net::replay(&args[2..]),
        ("gates", "replay") => gates::replay(&args[2..]),
        ("gates", "record") => gates::record(&args[2..]),
        ("alloc", "replay") => alloc::replay(&args[2..]),
        ("alloc", "record") => alloc::record(&args[2..]),
        ("alloc", "sizes") => alloc::sizes(&args[2..]),
        ("alloc", "maxtime") => alloc::maxtime(&args[2..]),
        _ => {
            eprintln!("unknown suite/mode");
            std::process::exit(3);
        }
    }
}
