//! Suite `props`: configuration matching (Props.tla) and slot typing (PropSlot.tla), C17.
use crate::common::*;
use des::net::module::Module;
use des::prelude::*;
use des_net_utils::props::{Cfg, Props};
use serde_json::{json, Value};
use std::collections::{BTreeMap, BTreeSet};
use std::panic::{catch_unwind, AssertUnwindSafe};

struct Quiet;
impl Module for Quiet {}

/// abstract segment -> concrete name, per embedding
fn name(seg: &str, emb: usize) -> String {
    match (emb % 3, seg) {
        (_, "<any>") => "<any>".into(),
        (0, s) => s.to_string(),
        (1, "a") => "alice".into(),
        (1, "ab") => "alicent".into(),
        (1, "b") => "bob".into(),
        (1, "x") => "xi".into(),
        (2, "a") => "al\u{e9}".into(),           // multi-byte, and a byte-prefix of the next one
        (2, "ab") => "al\u{e9}\u{e9}".into(),
        (2, "b") => "\u{436}".into(),
        (2, "x") => "\u{3c7}".into(),
        (_, s) => s.to_string(),
    }
}

fn seq(v: &Value, emb: usize) -> Vec<String> {
    v.as_array().unwrap().iter().map(|s| name(s.as_str().unwrap(), emb)).collect()
}

fn yaml_of(cfg: &Value, emb: usize) -> String {
    let mut out = String::new();
    for e in cfg.as_array().unwrap() {
        out.push_str(&format!("\"{}\": {}\n", seq(&e["k"], emb).join("."), e["v"].as_u64().unwrap()));
    }
    out
}

type Expect = BTreeMap<String, BTreeMap<String, BTreeSet<u64>>>; // path -> prop name -> admissible values

fn expect_of(obs: &Value, emb: usize) -> Expect {
    let mut m = Expect::new();
    for e in obs["expect"].as_array().unwrap() {
        let path = seq(&e["path"], emb).join(".");
        let mut props = BTreeMap::new();
        for p in e["props"].as_array().unwrap() {
            props.insert(seq(&p["name"], emb).join("."), p["vals"].as_array().unwrap().iter().map(|x| x.as_u64().unwrap()).collect());
        }
        m.insert(path, props);
    }
    m
}

fn compare(what: &str, path: &str, keys: Vec<String>, val: &dyn Fn(&str) -> Option<serde_yml::Value>, exp: &Expect) -> Result<u64, Value> {
    let empty = BTreeMap::new();
    let want = exp.get(path).unwrap_or(&empty);
    let got: BTreeSet<String> = keys.iter().cloned().collect();
    let wk: BTreeSet<String> = want.keys().cloned().collect();
    if got != wk || keys.len() != wk.len() {
        return Err(json!({"field": format!("{what}: property set of a module"), "path": path, "expected": wk, "got": keys}));
    }
    for (k, vals) in want {
        let v = val(k).and_then(|y| y.as_u64());
        if !v.map_or(false, |x| vals.contains(&x)) {
            return Err(json!({"field": format!("{what}: property value"), "path": path, "key": k, "expected_one_of": vals, "got": format!("{v:?}")}));
        }
    }
    Ok(1 + want.len() as u64)
}

fn replay_cfg(obs: &Value, names: &[&str], depth: usize, emb: usize, with_sim: bool) -> Result<u64, Value> {
    let yaml = yaml_of(&obs["cfg"], emb);
    let exp = expect_of(obs, emb);
    let mut checks = 0;
    // all module paths of depth 1..depth
    let mut paths: Vec<Vec<String>> = Vec::new();
    let mut layer: Vec<Vec<String>> = vec![vec![]];
    for _ in 0..depth {
        let mut next = Vec::new();
        for p in &layer {
            for n in names {
                let mut q = p.clone();
                q.push(name(n, emb));
                next.push(q);
            }
        }
        paths.extend(next.iter().cloned());
        layer = next;
    }
    // (1) the configuration object itself
    let value: serde_yml::Value = serde_yml::from_str(&yaml).map_err(|e| json!({"field": "yaml does not parse", "yaml": yaml, "err": e.to_string()}))?;
    let Ok(cfg) = catch_unwind(AssertUnwindSafe(|| Cfg::new(value.clone()))) else {
        return Err(json!({"field": "Cfg::new panicked", "yaml": yaml}));
    };
    for p in &paths {
        let refs: Vec<&str> = p.iter().map(String::as_str).collect();
        let Ok(mut props) = catch_unwind(AssertUnwindSafe(|| cfg.capture_for_into(&refs))) else {
            return Err(json!({"field": "capture_for_into panicked", "path": p.join("."), "yaml": yaml}));
        };
        let keys = props.keys();
        let vals: BTreeMap<String, Option<serde_yml::Value>> = keys.iter().map(|k| (k.clone(), props.get_raw(k).as_value())).collect();
        checks += compare("Cfg::capture_for_into", &p.join("."), keys, &|k| vals.get(k).cloned().flatten(), &exp).map_err(|mut m| {
            m["yaml"] = json!(yaml);
            m
        })?;
    }
    // (2) a real SimBuilder, configuration included before resp. after the nodes were created
    if with_sim {
        // modes: include_cfg before / after the nodes, with_cfg (the builder-style variant) before / after / between the nodes
        for mode in 0..5usize {
            let before = mode == 0 || mode == 2;
            let r = catch_unwind(AssertUnwindSafe(|| -> Result<u64, Value> {
                let mut sim = Sim::new(());
                match mode {
                    0 => sim.include_cfg(&yaml),
                    2 => sim = sim.with_cfg(&yaml),
                    _ => {}
                }
                for (i, p) in paths.iter().enumerate() {
                    if mode == 4 && i == paths.len() / 2 {
                        sim = sim.with_cfg(&yaml);
                    }
                    sim.node(p.join(".").as_str(), Quiet);
                }
                match mode {
                    1 => sim.include_cfg(&yaml),
                    3 => sim = sim.with_cfg(&yaml),
                    _ => {}
                }
                let mut c = 0;
                for p in &paths {
                    let path = p.join(".");
                    let m = sim.globals().get(&ObjectPath::from(path.as_str())).expect("module exists");
                    let keys = m.props_keys();
                    let what = ["include_cfg before node", "include_cfg after node", "with_cfg before nodes", "with_cfg after nodes", "with_cfg between nodes"][mode];
                    c += compare(what, &path, keys, &|k| m.prop_raw(k).as_value(), &exp)?;
                }
                drop(sim);
                Ok(c)
            }));
            match r {
                Ok(Ok(c)) => checks += c,
                Ok(Err(mut m)) => {
                    m["yaml"] = json!(yaml);
                    return Err(m);
                }
                Err(_) => return Err(json!({"field": "building a simulation with this configuration panicked", "yaml": yaml, "include_before_nodes": before})),
            }
        }
    }
    Ok(checks)
}

/// scenario predicate of known finding F-C17-1 (see lib/c_props.py::shadow_sig)
fn shadow_sig(cfg: &Value) -> bool {
    let keys: Vec<Vec<&str>> = cfg.as_array().unwrap().iter().map(|e| e["k"].as_array().unwrap().iter().map(|s| s.as_str().unwrap()).collect()).collect();
    for k2 in &keys {
        for i in 1..k2.len() {
            if k2[i] == "<any>" && k2[i - 1] != "<any>" && keys.iter().any(|k1| k1[..] == k2[..i]) {
                return true;
            }
        }
    }
    false
}

pub fn replay(args: &[String]) {
    let path = &args[0];
    let names_s = arg_value(args, "--names").unwrap_or_else(|| "a,ab,x".into());
    let names: Vec<&str> = names_s.split(',').collect();
    let depth = arg_u64(args, "--depth", 2) as usize;
    let sim_stride = arg_u64(args, "--sim-stride", 7) as usize;
    let mut s = Summary::default();
    for_each_line(path, |li, v| {
        s.behaviours += 1;
        if li < 2 {
            s.sample(v.clone());
        }
        // non-trivial: some entry uses a wildcard or two names in the config are textual prefixes of each other
        let txt = v["cfg"].to_string();
        if txt.contains("<any>") || (txt.contains("\"a\"") && txt.contains("\"ab\"")) {
            s.nontrivial += 1;
        }
        for emb in 0..3 {
            s.replays += 1;
            silence_panics();
            watchdog::enter(|| json!({"cfg": v["cfg"], "emb": emb}).to_string());
            match replay_cfg(&v, &names, depth, emb, (li + emb) % sim_stride == 0) {
                Ok(c) => s.checks += c,
                Err(mut m) => {
                    m["emb"] = json!(emb);
                    m["behaviour"] = v.clone();
                    if shadow_sig(&v["cfg"]) {
                        // sampled separately, so that examples of the recorded finding never crowd out others
                        m["field"] = json!(format!("{} [plain entry equals literal prefix of a wildcard entry]", m["field"].as_str().unwrap_or("")));
                    }
                    s.mismatch(m);
                }
            }
        }
    });
    s.print();
}

// ---------------------------------------------------------------- slot typing

/// an upgraded handle (Prop<T, true>) the client keeps across later operations
trait HeldHandle {
    /// Ok(value id) / Err(()) if the call panicked
    fn set3(&mut self) -> Result<(), ()>;
    /// the value ids (1 = configured, 2, 3 = written, 4 = configured later) that denote the value read; several for bool
    fn get_ids(&self) -> Result<Vec<u64>, ()>;
}
struct Held<T: des_net_utils::props::PropType> {
    h: des_net_utils::props::Prop<T, true>,
    vals: [T; 4], // conf (1), w2 (2), w3 (3), conf2 (4)
}
impl<T: des_net_utils::props::PropType + Clone + PartialEq> HeldHandle for Held<T> {
    fn set3(&mut self) -> Result<(), ()> {
        let w = self.vals[2].clone();
        catch_unwind(AssertUnwindSafe(|| self.h.set(w))).map_err(|_| ())
    }
    fn get_ids(&self) -> Result<Vec<u64>, ()> {
        let v = catch_unwind(AssertUnwindSafe(|| self.h.get())).map_err(|_| ())?;
        Ok(self.vals.iter().enumerate().filter(|(_, x)| **x == v).map(|(i, _)| i as u64 + 1).collect())
    }
}

fn hold_step<T>(props: &mut Props, e: &Value, conf: T, w2: T, w3: T, conf2: T) -> Result<Option<Box<dyn HeldHandle>>, Value>
where
    T: des_net_utils::props::PropType + Clone + PartialEq + std::fmt::Debug + 'static,
{
    let want_ok = e["res"] == "ok";
    let r = catch_unwind(AssertUnwindSafe(|| props.get::<T>("k")));
    let Ok(r) = r else { return Err(json!({"field": "typed access panicked"})) };
    match (r, want_ok) {
        (Ok(h), true) => {
            let h = h.or(w2.clone());
            let held = Held { h, vals: [conf, w2, w3, conf2] };
            let got = held.get_ids().map_err(|_| json!({"field": "reading through a fresh upgraded handle panicked"}))?;
            if !got.contains(&e["val"].as_u64().unwrap()) {
                return Err(json!({"field": "value seen through a fresh upgraded handle", "expected": e["val"], "got": got}));
            }
            Ok(Some(Box::new(held)))
        }
        (Err(_), false) => Ok(None),
        (Ok(_), false) => Err(json!({"field": "handle of a different type was granted"})),
        (Err(e2), true) => Err(json!({"field": "handle at the slot's own type was refused", "err": e2.to_string()})),
    }
}

fn slot_step<T>(props: &mut Props, e: &Value, conf: T, w2: T, w3: T, conf2: T) -> Result<(), Value>
where
    T: des_net_utils::props::PropType + Clone + PartialEq + std::fmt::Debug,
{
    let want_ok = e["res"] == "ok";
    match e["op"].as_str().unwrap() {
        "read" => {
            let r = catch_unwind(AssertUnwindSafe(|| props.get::<T>("k")));
            let Ok(r) = r else { return Err(json!({"field": "typed read panicked"})) };
            match (r, want_ok) {
                (Ok(h), true) => {
                    let got = h.get();
                    let exp = match e["val"].as_u64().unwrap() {
                        0 => None,
                        1 => Some(conf),
                        2 => Some(w2),
                        3 => Some(w3),
                        _ => Some(conf2),
                    };
                    if got != exp {
                        return Err(json!({"field": "value read back", "expected": format!("{exp:?}"), "got": format!("{got:?}")}));
                    }
                }
                (Err(_), false) => {}
                (Ok(h), false) => return Err(json!({"field": "reading a property as a different type succeeded", "got": format!("{:?}", h.get())})),
                (Err(e2), true) => return Err(json!({"field": "reading a property at its own type failed", "err": e2.to_string()})),
            }
        }
        "write" => {
            let r = catch_unwind(AssertUnwindSafe(|| props.get::<T>("k")));
            let Ok(r) = r else { return Err(json!({"field": "typed access panicked"})) };
            match (r, want_ok) {
                (Ok(h), true) => {
                    let w = if e["val"].as_u64().unwrap() == 2 { w2 } else { w3 };
                    let mut h = h.or(w.clone());
                    if catch_unwind(AssertUnwindSafe(|| h.set(w))).is_err() {
                        return Err(json!({"field": "write at the slot's own type panicked"}));
                    }
                }
                (Err(_), false) => {}
                (Ok(_), false) => return Err(json!({"field": "write access at a different type was granted"})),
                (Err(e2), true) => return Err(json!({"field": "write access at the slot's own type failed", "err": e2.to_string()})),
            }
        }
        _ => unreachable!(),
    }
    Ok(())
}

fn replay_slot(beh: &[Value]) -> Result<u64, Value> {
    let mut props = Props::default();
    let init = &beh[0]["slot"];
    if init["st"] == "yaml" {
        let y = match init["y"].as_str().unwrap() {
            "num" => serde_yml::Value::Number(7.into()),
            "str" => serde_yml::Value::String("seven".into()),
            _ => serde_yml::Value::Bool(true),
        };
        props.set("k".into(), y);
    }
    let mut checks = 0;
    let mut held: Option<Box<dyn HeldHandle>> = None;
    for (i, e) in beh.iter().enumerate().skip(1) {
        let r = match (e["op"].as_str().unwrap(), e["ty"].as_str().unwrap()) {
            ("hold", ty) => {
                let h = match ty {
                    "u32" => hold_step::<u32>(&mut props, e, 7, 2, 3, 9),
                    "i64" => hold_step::<i64>(&mut props, e, 7, 2, 3, 9),
                    "string" => hold_step::<String>(&mut props, e, "seven".into(), "two".into(), "three".into(), "nine".into()),
                    "bool" => hold_step::<bool>(&mut props, e, true, true, false, true),
                    _ => hold_step::<f32>(&mut props, e, 7.0, 2.0, 3.0, 9.0),
                };
                match h {
                    Ok(Some(x)) => {
                        held = Some(x);
                        Ok(())
                    }
                    Ok(None) => Ok(()),
                    Err(m) => Err(m),
                }
            }
            ("held_set", _) => {
                let got = held.as_mut().expect("spec uses a handle it never obtained").set3();
                match (got.is_ok(), e["res"] == "ok") {
                    (true, true) | (false, false) => Ok(()),
                    (true, false) => Err(json!({"field": "set through a stale handle of another type overwrote the property instead of failing"})),
                    (false, true) => Err(json!({"field": "set through a valid kept handle panicked"})),
                }
            }
            ("held_get", _) => {
                let got = held.as_ref().expect("spec uses a handle it never obtained").get_ids();
                match (got, e["res"] == "ok") {
                    (Ok(v), true) if v.contains(&e["val"].as_u64().unwrap()) => Ok(()),
                    (Ok(v), true) => Err(json!({"field": "value read through a kept handle", "expected": e["val"], "got": v})),
                    (Err(()), false) => Ok(()),
                    (Ok(v), false) => Err(json!({"field": "read through a stale handle of another type returned a value (reinterpretation)", "got": v})),
                    (Err(()), true) => Err(json!({"field": "read through a valid kept handle panicked"})),
                }
            }
            ("clear", _) => {
                props.get_raw("k").clear();
                Ok(())
            }
            ("reconfig", y) => {
                // a later configuration entry for the same key (what include_cfg does for existing modules)
                props.set("k".into(), if y == "num" { serde_yml::Value::Number(9.into()) } else { serde_yml::Value::String("nine".into()) });
                Ok(())
            }
            (_, "u32") => slot_step::<u32>(&mut props, e, 7, 2, 3, 9),
            (_, "i64") => slot_step::<i64>(&mut props, e, 7, 2, 3, 9),
            (_, "string") => slot_step::<String>(&mut props, e, "seven".into(), "two".into(), "three".into(), "nine".into()),
            (_, "bool") => slot_step::<bool>(&mut props, e, true, true, false, true),
            (_, "f32") => slot_step::<f32>(&mut props, e, 7.0, 2.0, 3.0, 9.0),
            _ => unreachable!(),
        };
        r.map_err(|mut m| {
            m["step"] = json!(i);
            m
        })?;
        checks += 1;
    }
    Ok(checks)
}

pub fn replay_slots(args: &[String]) {
    let path = &args[0];
    let mut s = Summary::default();
    for_each_line(path, |li, v| {
        s.behaviours += 1;
        s.replays += 1;
        if li < 2 {
            s.sample(v.clone());
        }
        let beh = v.as_array().unwrap();
        if beh.iter().any(|e| e["res"] == "err") {
            s.nontrivial += 1;
        }
        watchdog::enter(|| v.to_string());
        match replay_slot(beh) {
            Ok(c) => s.checks += c,
            Err(mut m) => {
                m["behaviour"] = v.clone();
                s.mismatch(m);
            }
        }
    });
    s.print();
}
