//! Suite `repro` (C04): randomized network/async models whose observable history must depend on the
//! seed only. `vh repro run --scenario K --seed S --repeat R [--warmup W]` prints R histories.
use crate::common::*;
use des::net::channel::{Channel, ChannelDropBehaviour, ChannelMetrics};
use des::net::module::Module;
use des::prelude::*;
use des::time::sleep;
use rand::distr::Uniform;
use std::cell::RefCell;
use std::time::Duration;

thread_local! {
    static HIST: RefCell<Vec<String>> = const { RefCell::new(Vec::new()) };
    static NEXT: RefCell<u16> = const { RefCell::new(1) };
}

fn h(line: String) {
    HIST.with(|x| x.borrow_mut().push(line));
}

struct RMod {
    name: String,
    gates: Vec<&'static str>,
    budget: u32,
    task_rounds: u32,
    inc: u32,
    restarts: bool,
}

impl RMod {
    fn act(&mut self, draw: u32) {
        if self.budget == 0 {
            return;
        }
        self.budget -= 1;
        let mk = || {
            let id = NEXT.with(|n| {
                let mut n = n.borrow_mut();
                let v = *n;
                *n = n.wrapping_add(1);
                v
            });
            Message::default().id(id).with_content(vec![0u8; (draw % 200) as usize])
        };
        match draw % 4 {
            0 => send(mk(), self.gates[(draw as usize / 4) % self.gates.len()]),
            1 => schedule_in(mk(), Duration::from_micros((draw % 3000) as u64)),
            2 => {
                send(mk(), self.gates[(draw as usize / 4) % self.gates.len()]);
                schedule_in(mk(), Duration::from_micros((draw % 1700) as u64));
            }
            _ => {}
        }
    }
}

impl Module for RMod {
    fn at_sim_start(&mut self, _: usize) {
        let d = random::<u32>();
        h(format!("start {} draw={d}", self.name));
        self.act(d | 2); // every module starts by sending and scheduling
        let name = self.name.clone();
        let rounds = self.task_rounds;
        let inc = self.inc;
        // two tasks with identical timer deadlines: the order in which they resume is part of the history
        for twin in 0..2 {
            let name = self.name.clone();
            tokio::spawn(async move {
                for i in 0..3u32 {
                    sleep(Duration::from_micros(700 * (i as u64 + 1))).await;
                    h(format!("twin {name}#{twin} inc={inc} round={i} t={}", SimTime::now().as_nanos()));
                }
            });
        }
        if self.restarts && inc == 1 {
            // the module is shut down and restarted once; the new incarnation spawns its tasks (and select!s) again
            let d = Duration::from_micros(900 + (d % 700) as u64);
            tokio::spawn(async move {
                sleep(d).await;
                current().shutdow_and_restart_in(Duration::from_micros(300));
            });
        }
        // a task whose select! has two branches that become ready at the same instant: tokio picks by its seeded RNG
        tokio::spawn(async move {
            for i in 0..rounds {
                let x: f64 = sample(Uniform::new(0.0f64, 1.0).unwrap());
                let d = Duration::from_micros(200 + (x * 900.0) as u64);
                let branch = tokio::select! {
                    () = sleep(d) => "A",
                    () = sleep(d) => "B",
                    () = sleep(d + Duration::from_micros(1)) => "C",
                };
                h(format!("task {name} inc={inc} round={i} t={} branch={branch} x={x:.9}", SimTime::now().as_nanos()));
            }
        });
    }
    fn reset(&mut self) {
        self.inc += 1;
        h(format!("reset {} t={}", self.name, SimTime::now().as_nanos()));
    }
    fn at_sim_end(&mut self) -> Result<(), RuntimeError> {
        // emitted during tear-down: never processed, and must not show up in a later simulation of this process
        schedule_in(Message::default().id(60000), Duration::from_secs(1));
        send(Message::default().id(60001), self.gates[0]);
        h(format!("end {}", self.name));
        Ok(())
    }
    fn handle_message(&mut self, msg: Message) {
        let d = random::<u32>();
        h(format!("msg {} t={} id={} len={} draw={d}", self.name, SimTime::now().as_nanos(), msg.header().id, msg.length()));
        self.act(d);
    }
}

fn build_and_run(scenario: u64, seed: u64) {
    silence_panics();
    NEXT.with(|n| *n.borrow_mut() = 1);
    let mut g = Rng(scenario.wrapping_mul(0x9E37_79B9_7F4A_7C15) ^ 0xc04);
    let mut sim = Sim::new(());
    let names = ["a", "b", "c"];
    let budget = 6 + g.below(10) as u32;
    let rounds = 2 + g.below(6) as u32;
    let restarter = g.below(3);
    sim.node("a", RMod { name: "a".into(), gates: vec!["out", "o2"], budget, task_rounds: rounds, inc: 1, restarts: restarter == 0 });
    sim.node("b", RMod { name: "b".into(), gates: vec!["out"], budget, task_rounds: rounds, inc: 1, restarts: restarter == 1 });
    sim.node("c", RMod { name: "c".into(), gates: vec!["back"], budget, task_rounds: 1 + rounds / 2, inc: 1, restarts: restarter == 2 });
    let mut ch = |g: &mut Rng| {
        let jitter = Duration::from_micros(50 + g.below(400));
        let policy = if g.chance(1, 2) { ChannelDropBehaviour::Queue(None) } else { ChannelDropBehaviour::Drop };
        Some(Channel::new(ChannelMetrics::new([0usize, 1_000_000, 80_000][g.below(3) as usize], Duration::from_micros(100 + g.below(900)), jitter, policy)))
    };
    let _ = names;
    let (ao, bi) = (sim.gate("a", "out"), sim.gate("b", "in"));
    ao.connect(bi, ch(&mut g));
    let (bo, ai) = (sim.gate("b", "out"), sim.gate("a", "in"));
    bo.connect(ai, ch(&mut g));
    let (o2, ct, i2) = (sim.gate("a", "o2"), sim.gate("c", "t"), sim.gate("b", "i2"));
    o2.connect(ct.clone(), None);
    ct.connect(i2, ch(&mut g));
    let (cb, ab) = (sim.gate("c", "back"), sim.gate("a", "fromc"));
    cb.connect(ab, ch(&mut g));
    let rt = Builder::seeded(seed).quiet().max_itr(3000).build(sim.freeze());
    let res = rt.run();
    match res {
        Ok((_, t, p)) => h(format!("result ok t={} events={}", t.as_nanos(), p.event_count)),
        Err(e) => h(format!("result err {e}")),
    }
}

pub fn run(args: &[String]) {
    let scenario = arg_u64(args, "--scenario", 1);
    let seed = arg_u64(args, "--seed", 1);
    let repeat = arg_u64(args, "--repeat", 1);
    let warmup = arg_u64(args, "--warmup", 0);
    for w in 0..warmup {
        // other simulations before the measured one: different id counters / addresses
        HIST.with(|x| x.borrow_mut().clear());
        build_and_run(scenario + 1000 + w, seed + 7);
    }
    for r in 0..repeat {
        HIST.with(|x| x.borrow_mut().clear());
        build_and_run(scenario, seed);
        println!("=== history {r}");
        HIST.with(|x| {
            for l in x.borrow().iter() {
                println!("{l}");
            }
        });
    }
}
