//! Suite `alloc`: the calendar-queue page allocator (C15, first sentence).
//!
//! replay: Gen_Alloc behaviours (mixed sizes / alignments, exact first-fit placement) on the real
//!         allocator through the RawAllocator hook. Safety (overlap, alignment, page bounds, pairing) is
//!         checked against a shadow map (contract level); placement is compared with the mechanism spec
//!         (drift level).
//! record: CQueue histories with the allocator observer installed; the event stream is written as
//!         ndjson for Trace_AllocSafety (TLC decides safety), several page sizes and payload types.
use crate::common::*;
use des_cqueue::verif_alloc::{set_observer, AllocEvent, RawAllocator};
use des_cqueue::CQueue;
use serde_json::{json, Value};
use std::alloc::Layout;
use std::cell::RefCell;
use std::io::Write;
use std::panic::{catch_unwind, AssertUnwindSafe};
use std::rc::Rc;
use std::time::Duration;

const UNIT: usize = 8;

#[derive(Default)]
struct Shadow {
    pages: Vec<(usize, usize)>,        // base, len (bytes)
    live: Vec<(usize, usize, usize)>,  // addr, size, align (bytes)
}

impl Shadow {
    fn page_of(&self, addr: usize) -> Option<usize> {
        self.pages.iter().position(|(b, l)| addr >= *b && addr < b + l)
    }
    fn alloc(&mut self, addr: usize, size: usize, align: usize) -> Result<(), String> {
        if align == 0 || addr % align != 0 {
            return Err(format!("misaligned: addr {addr:#x} align {align}"));
        }
        let Some(p) = self.page_of(addr) else { return Err(format!("address {addr:#x} outside every owned page")) };
        let (b, l) = self.pages[p];
        if addr + size > b + l {
            return Err(format!("region [{addr:#x},+{size}) crosses the end of its page"));
        }
        for (a, s, _) in &self.live {
            if addr < a + s && *a < addr + size {
                return Err(format!("region [{addr:#x},+{size}) overlaps live region [{a:#x},+{s})"));
            }
        }
        self.live.push((addr, size, align));
        Ok(())
    }
    fn dealloc(&mut self, addr: usize, size: usize) -> Result<(), String> {
        match self.live.iter().position(|(a, s, _)| *a == addr && *s == size) {
            Some(i) => {
                self.live.swap_remove(i);
                Ok(())
            }
            None => Err(format!("release of [{addr:#x},+{size}) which is not a live region (double free / wrong size)")),
        }
    }
}

fn replay_one(beh: &[Value], ps_units: usize) -> Result<(u64, bool), Value> {
    let page = ps_units * UNIT;
    let mut a = RawAllocator::new(page);
    let mut sh = Shadow::default();
    let mut drift = false;
    let mut checks = 0u64;
    let sync_pages = |a: &RawAllocator, sh: &mut Shadow| {
        let pages = a.pages();
        for p in pages.iter().skip(sh.pages.len()) {
            sh.pages.push((*p, page));
        }
    };
    sync_pages(&a, &mut sh);
    // spec address (units) -> real address via page index
    let real = |sh: &Shadow, u: usize| -> Option<usize> { sh.pages.get(u / ps_units).map(|(b, _)| b + (u % ps_units) * UNIT) };
    let abstr = |sh: &Shadow, addr: usize| -> Option<usize> { sh.page_of(addr).map(|p| p * ps_units + (addr - sh.pages[p].0) / UNIT) };
    for (i, e) in beh.iter().enumerate() {
        match e["op"].as_str().unwrap() {
            "alloc" | "fail" | "runaway" => {
                let rs = e["rs"].as_u64().unwrap() as usize * UNIT;
                let ra = e["ra"].as_u64().unwrap() as usize * UNIT;
                let layout = Layout::from_size_align(rs, ra).unwrap();
                let r = catch_unwind(AssertUnwindSafe(|| a.allocate(layout)));
                let Ok(r) = r else { return Err(json!({"field": "safety: allocate panicked", "step": i})) };
                sync_pages(&a, &mut sh);
                checks += 1;
                match (r, e["op"].as_str().unwrap()) {
                    (Ok(addr), "alloc") => {
                        let size = e["size"].as_u64().unwrap() as usize * UNIT;
                        let align = e["align"].as_u64().unwrap() as usize * UNIT;
                        if let Err(msg) = sh.alloc(addr, size, align) {
                            return Err(json!({"field": format!("safety: {msg}"), "step": i}));
                        }
                        let exp = e["addr"].as_u64().unwrap() as usize;
                        if abstr(&sh, addr) != Some(exp) || a.pages().len() as u64 != e["npages"].as_u64().unwrap() {
                            drift = true;
                        }
                        if a.allocated_mem() as u64 != e["amem"].as_u64().unwrap() * UNIT as u64 {
                            drift = true;
                        }
                        checks += 3;
                    }
                    (Err(()), "fail") => {}
                    (Ok(_), "fail") => return Err(json!({"field": "safety: request larger than a page was served", "step": i})),
                    (Err(()), "alloc") => return Err(json!({"field": "safety: request that fits a page was refused", "step": i})),
                    (_, _) => return Err(json!({"field": "unexpected allocate outcome", "step": i})),
                }
            }
            "dealloc" => {
                let u = e["addr"].as_u64().unwrap() as usize;
                let size = e["size"].as_u64().unwrap() as usize * UNIT;
                // the spec names the region by its abstract address; find the live shadow region there
                let Some(addr) = real(&sh, u) else { drift = true; continue };
                let Some(&(_, s, al)) = sh.live.iter().find(|(a0, _, _)| *a0 == addr) else {
                    // placement drifted earlier: free some live region of that size instead
                    drift = true;
                    continue;
                };
                if s != size {
                    drift = true;
                }
                let layout = Layout::from_size_align(s, al).unwrap();
                if catch_unwind(AssertUnwindSafe(|| unsafe { a.deallocate(addr, layout) })).is_err() {
                    return Err(json!({"field": "safety: deallocate panicked", "step": i}));
                }
                sh.dealloc(addr, s).map_err(|m| json!({"field": format!("safety: {m}"), "step": i}))?;
                checks += 1;
            }
            _ => {}
        }
    }
    Ok((checks, drift))
}

pub fn replay(args: &[String]) {
    let path = &args[0];
    let ps = arg_u64(args, "--ps", 16) as usize;
    let mut s = Summary::default();
    for_each_line(path, |li, v| {
        let beh = v.as_array().unwrap();
        s.behaviours += 1;
        s.replays += 1;
        if li < 2 {
            s.sample(v.clone());
        }
        // non-trivial: a region is freed and memory is handed out again afterwards
        let mut seen_free = false;
        let mut reuse = false;
        for e in beh {
            if e["op"] == "dealloc" {
                seen_free = true;
            } else if e["op"] == "alloc" && seen_free {
                reuse = true;
            }
        }
        if reuse {
            s.nontrivial += 1;
        }
        watchdog::enter(|| json!({"behaviour": v, "ps_units": ps}).to_string());
        match replay_one(beh, ps) {
            Ok((c, drift)) => {
                s.checks += c;
                if drift {
                    s.bump("placement_drift", 1);
                    if s.extra.get("drift_example").is_none() {
                        s.extra.insert("drift_example".into(), v.clone());
                    }
                }
            }
            Err(mut m) => {
                m["behaviour"] = v.clone();
                m["ps_units"] = json!(ps);
                s.mismatch(m);
            }
        }
    });
    s.print();
}

// ------------------------------------------------------------------ direction V

struct Pay<const N: usize, const A: usize> {
    _bytes: [u8; N],
    ctr: Rc<RefCell<u64>>,
}
impl<const N: usize, const A: usize> Drop for Pay<N, A> {
    fn drop(&mut self) {
        *self.ctr.borrow_mut() += 1;
    }
}
#[repr(align(16))]
struct Al16<T>(T);
#[repr(align(32))]
struct Al32<T>(T);

fn drive<E>(rng: &mut Rng, n: usize, w: Duration, page: usize, nops: usize, mk: impl Fn() -> E) -> Result<(), String> {
    let mut q: CQueue<E> = CQueue::verif_with_page_size(n, w, page);
    let mut handles = Vec::new();
    let mut cur = Duration::ZERO;
    for _ in 0..nops {
        watchdog::tick();
        let c = rng.below(100);
        if c < 50 {
            let d = match rng.below(6) {
                0 => Duration::ZERO,
                1 => Duration::from_nanos(1 + rng.below(w.as_nanos() as u64 * 2)),
                2 => w,
                3 => w * (n as u32),
                4 => w * (rng.below(5 * n as u64) as u32),
                _ => Duration::from_nanos(rng.below(1000)),
            };
            let h = catch_unwind(AssertUnwindSafe(|| q.add(cur + d, mk()))).map_err(|_| "add panicked".to_string())?;
            handles.push(h);
        } else if c < 80 {
            if !q.is_empty() {
                let (e, t) = catch_unwind(AssertUnwindSafe(|| q.fetch_next())).map_err(|_| "fetch panicked".to_string())?;
                drop(e);
                cur = t;
            }
        } else if !handles.is_empty() {
            let k = rng.below(handles.len() as u64) as usize;
            let h = handles.swap_remove(k);
            catch_unwind(AssertUnwindSafe(|| q.cancel(h))).map_err(|_| "cancel panicked".to_string())?;
        }
        if rng.chance(1, 8) {
            q.verif_check_invariants().map_err(|e| format!("structural invariant: {e}"))?;
        }
    }
    q.verif_check_invariants().map_err(|e| format!("structural invariant: {e}"))?;
    drop(q);
    Ok(())
}

pub fn record(args: &[String]) {
    let seed = arg_u64(args, "--seed", 1);
    let runs = arg_u64(args, "--runs", 20);
    let nops = arg_u64(args, "--ops", 300) as usize;
    let page = arg_u64(args, "--page", 4096) as usize;
    let outp = arg_value(args, "--out").expect("--out");
    let mut rng = Rng(seed.wrapping_mul(0x9E37_79B9) ^ 0xa110c);
    let out = Rc::new(RefCell::new(std::io::BufWriter::new(std::fs::File::create(&outp).unwrap())));
    let mut s = Summary::default();
    // observer: translate byte addresses into page index * PS + offset in 8-byte units
    let pages: Rc<RefCell<Vec<Option<usize>>>> = Rc::new(RefCell::new(Vec::new()));
    let events = Rc::new(RefCell::new(0u64));
    {
        let out = out.clone();
        let pages = pages.clone();
        let events = events.clone();
        set_observer(Some(Box::new(move |ev| {
            *events.borrow_mut() += 1;
            let mut o = out.borrow_mut();
            let psu = page / UNIT;
            let conv = |pages: &Vec<Option<usize>>, addr: usize| -> i64 {
                match pages.iter().position(|b| b.map_or(false, |b| addr >= b && addr < b + page)) {
                    Some(p) if (addr - pages[p].unwrap()) % UNIT == 0 => (p * psu + (addr - pages[p].unwrap()) / UNIT) as i64,
                    _ => -1,
                }
            };
            let line = match ev {
                AllocEvent::Page { base, len } => {
                    // the default-constructed allocator uses the system page size; only pages of the
                    // size under test are addressable in this trace
                    let aligned = base % len == 0;
                    if len == page {
                        pages.borrow_mut().push(Some(base));
                        json!({"op": "page", "idx": pages.borrow().len() - 1, "ok": aligned, "addr": 0, "size": 0, "align": 1, "pages": []})
                    } else {
                        json!({"op": "skip", "idx": 0, "ok": aligned, "addr": 0, "size": 0, "align": 1, "pages": []})
                    }
                }
                AllocEvent::Alloc { addr, size, align } => {
                    let a = conv(&pages.borrow(), addr);
                    if a < 0 && !pages.borrow().iter().any(Option::is_some) {
                        json!({"op": "skip", "idx": 0, "ok": true, "addr": 0, "size": 0, "align": 1, "pages": []})
                    } else {
                        let mis = size % UNIT != 0 || align % UNIT != 0;
                        json!({"op": "alloc", "addr": a, "size": if mis { -1 } else { (size / UNIT) as i64 }, "align": (align / UNIT).max(1), "idx": 0, "ok": true, "pages": []})
                    }
                }
                AllocEvent::Dealloc { addr, size } => {
                    let a = conv(&pages.borrow(), addr);
                    if a < 0 && !pages.borrow().iter().any(Option::is_some) {
                        json!({"op": "skip", "idx": 0, "ok": true, "addr": 0, "size": 0, "align": 1, "pages": []})
                    } else {
                        json!({"op": "dealloc", "addr": a, "size": (size / UNIT) as i64, "align": 1, "idx": 0, "ok": true, "pages": []})
                    }
                }
                AllocEvent::Release { pages: bases } => {
                    let mut idxs = Vec::new();
                    let mut pg = pages.borrow_mut();
                    for b in bases {
                        if let Some(i) = pg.iter().position(|x| *x == Some(b)) {
                            pg[i] = None;
                            idxs.push(i);
                        }
                    }
                    json!({"op": "release", "idx": 0, "addr": 0, "size": 0, "align": 1, "ok": true, "pages": idxs})
                }
            };
            writeln!(o, "{}", line).unwrap();
        })));
    }
    let ns = [1usize, 2, 3, 8, 17];
    let ws = [1u64, 1_000, 2_500_000];
    for r in 0..runs {
        let n = *rng.pick(&ns);
        let w = Duration::from_nanos(*rng.pick(&ws));
        pages.borrow_mut().clear();
        writeln!(out.borrow_mut(), "{}", json!({"op": "reset", "idx": 0, "addr": 0, "size": 0, "align": 1, "ok": true, "pages": []})).unwrap();
        let ctr = Rc::new(RefCell::new(0u64));
        let kind = rng.below(7);
        watchdog::enter(|| json!({"alloc_record_run": r, "seed": seed, "page": page, "n": n, "payload_kind": kind}).to_string());
        let c = ctr.clone();
        let res = match kind {
            0 => drive(&mut rng, n, w, page, nops, || 0u8),
            1 => drive(&mut rng, n, w, page, nops, || Pay::<1, 1> { _bytes: [7; 1], ctr: c.clone() }),
            2 => drive(&mut rng, n, w, page, nops, || Pay::<40, 8> { _bytes: [7; 40], ctr: c.clone() }),
            3 => drive(&mut rng, n, w, page, nops, || Al16(Pay::<24, 16> { _bytes: [7; 24], ctr: c.clone() })),
            4 => drive(&mut rng, n, w, page, nops, || Al32(Pay::<10, 32> { _bytes: [7; 10], ctr: c.clone() })),
            5 if page >= 1024 => drive(&mut rng, n, w, page, nops, || Pay::<600, 8> { _bytes: [7; 600], ctr: c.clone() }),
            6 if page >= 4096 => drive(&mut rng, n, w, page, nops, || Al16(Pay::<2000, 16> { _bytes: [7; 2000], ctr: c.clone() })),
            _ => drive(&mut rng, n, w, page, nops, || [0u32; 5]),
        };
        s.behaviours += 1;
        if let Err(e) = res {
            s.mismatch(json!({"field": e, "run": r, "seed": seed, "page": page, "n": n, "payload_kind": kind}));
        }
    }
    set_observer(None);
    out.borrow_mut().flush().unwrap();
    s.extra.insert("alloc_events".into(), json!(*events.borrow()));
    s.print();
}

/// `vh alloc sizes --page P`: every node size near the page size must be served or refused, never hang.
pub fn sizes(args: &[String]) {
    let page = arg_u64(args, "--page", 4096) as usize;
    let mut s = Summary::default();
    for sz in (page.saturating_sub(96)..=page + 16).chain(1..64) {
        for al in [1usize, 2, 4, 8, 16, 32] {
            if sz == 0 {
                continue;
            }
            watchdog::enter(|| json!({"alloc_request": {"size": sz, "align": al, "page": page}}).to_string());
            eprintln!("REQ size={sz} align={al} page={page}");
            s.behaviours += 1;
            s.replays += 1;
            let mut a = RawAllocator::new(page);
            let layout = Layout::from_size_align(sz, al).unwrap();
            let padded = layout.align_to(8).unwrap().pad_to_align().size().max(16);
            let r = catch_unwind(AssertUnwindSafe(|| a.allocate(layout)));
            match r {
                Ok(Ok(addr)) => {
                    let pages = a.pages();
                    let ok = pages.iter().any(|b| addr >= *b && addr + padded <= b + page) && addr % al.max(8) == 0;
                    if !ok || padded > page {
                        s.mismatch(json!({"field": "safety: single allocation outside its page / misaligned", "size": sz, "align": al, "page": page}));
                    }
                    if padded + 8 > page {
                        s.nontrivial += 1;
                    }
                }
                Ok(Err(())) => {
                    if padded <= page {
                        s.mismatch(json!({"field": "safety: request that fits a page was refused", "size": sz, "align": al, "page": page}));
                    }
                }
                Err(_) => s.mismatch(json!({"field": "safety: allocate panicked", "size": sz, "align": al, "page": page})),
            }
            s.checks += 1;
        }
    }
    s.print();
}

// ------------------------------------------------------------------ timestamps at the end of the time axis
/// `vh alloc maxtime`: events scheduled for Duration::MAX (the timestamp of the queue's own tail sentinels) are ordinary
/// payloads for the purposes of C15: queued, cancellable, and dropped exactly once with the queue.
pub fn maxtime(_args: &[String]) {
    use des_cqueue::CQueue;
    use std::cell::RefCell;
    use std::rc::Rc;
    struct Counted(Rc<RefCell<Vec<u32>>>, usize);
    impl Drop for Counted {
        fn drop(&mut self) {
            self.0.borrow_mut()[self.1] += 1;
        }
    }
    let mut s = Summary::default();
    for (n, w) in [(1usize, Duration::from_nanos(1)), (4, Duration::from_millis(5)), (1028, Duration::from_secs_f64(0.0025)), (3, Duration::from_secs(1 << 32))] {
        s.behaviours += 1;
        s.replays += 1;
        watchdog::enter(|| json!({"maxtime": {"n": n, "w_ns": w.as_nanos() as u64}}).to_string());
        let drops = Rc::new(RefCell::new(vec![0u32; 5]));
        let r = catch_unwind(AssertUnwindSafe(|| {
            let mut q: CQueue<Counted> = CQueue::new(n, w);
            let _h0 = q.add(Duration::from_secs(1), Counted(drops.clone(), 0));
            let h1 = q.add(Duration::MAX, Counted(drops.clone(), 1));
            let _h2 = q.add(Duration::MAX, Counted(drops.clone(), 2));
            let _h3 = q.add(Duration::MAX - Duration::from_nanos(1), Counted(drops.clone(), 3));
            let len_before = q.len();
            q.cancel(h1);
            let len_after = q.len();
            let first = q.fetch_next();
            let first_ok = first.1 == Duration::from_secs(1) && (first.0).1 == 0;
            drop(first);
            let _h4 = q.add(Duration::MAX, Counted(drops.clone(), 4));
            drop(q);
            (len_before, len_after, first_ok)
        }));
        match r {
            Err(_) => s.mismatch(json!({"field": "queue with events at Duration::MAX: an operation panicked", "n": n, "w_ns": w.as_nanos() as u64})),
            Ok((lb, la, first_ok)) => {
                let d = drops.borrow().clone();
                if lb != 4 || la != 3 || !first_ok || d != vec![1, 1, 1, 1, 1] {
                    s.mismatch(json!({"field": "queue with events at Duration::MAX: len / first fetch / drop counts", "expected": {"len_before": 4, "len_after": 3, "drops": [1, 1, 1, 1, 1]},
                                      "got": {"len_before": lb, "len_after": la, "first_ok": first_ok, "drops": d}, "n": n, "w_ns": w.as_nanos() as u64}));
                } else {
                    s.checks += 4;
                }
            }
        }
    }
    // ties at the far end of time leave in scheduling order like ties anywhere else (one bucket as wide as time itself is
    // the parameterisation whose window reaches Duration::MAX)
    for burst in [2usize, 3, 6] {
        s.behaviours += 1;
        s.replays += 1;
        watchdog::enter(|| json!({"maxtime_ties": burst}).to_string());
        let r = catch_unwind(AssertUnwindSafe(|| {
            let mut q: CQueue<usize> = CQueue::new(1, Duration::MAX);
            let mut expected = Vec::new();
            for i in 0..burst {
                q.add(Duration::MAX, 100 + i);
                q.add(Duration::from_secs(i as u64 + 1), i);
            }
            for i in 0..burst {
                expected.push((i, Duration::from_secs(i as u64 + 1)));
            }
            for i in 0..burst {
                expected.push((100 + i, Duration::MAX));
            }
            let mut got = Vec::new();
            while !q.is_empty() {
                got.push(q.fetch_next());
            }
            (expected, got)
        }));
        match r {
            Err(_) => s.mismatch(json!({"field": "queue with ties at Duration::MAX: an operation panicked", "burst": burst})),
            Ok((e, g)) => {
                if e != g {
                    s.mismatch(json!({"field": "queue with ties at Duration::MAX: fetch order", "expected": format!("{e:?}"), "got": format!("{g:?}"), "burst": burst}));
                } else {
                    s.checks += e.len() as u64;
                }
            }
        }
    }
    s.print();
}
