//! Suite `ndl`: network descriptions against Ndl.tla (C18): transform() result class, and for realisable
//! descriptions the built simulation (modules with their software, gates, connections with link delays).
use crate::common::*;
use des::net::gate::Connection;
use des::net::module::Module;
use des::net::ndl::{Def, Registry};
use des::prelude::*;
use des_net_utils::ndl::{error::ErrorKind, transform};
use serde_json::{json, Value};
use std::collections::BTreeSet;
use std::panic::{catch_unwind, AssertUnwindSafe};

struct TypedProbe {
    ty: &'static str,
}
impl Module for TypedProbe {}

fn field(f: &Value) -> String {
    let k = f["k"].as_i64().unwrap();
    if k < 0 { f["id"].as_str().unwrap().to_string() } else { format!("{}[{}]", f["id"].as_str().unwrap(), k) }
}

fn endpoint(a: &Value) -> String {
    a.as_array().unwrap().iter().map(field).collect::<Vec<_>>().join("/")
}

/// render the abstract description as a YAML document
pub fn yaml_of(def: &Value) -> String {
    let mut y = format!("entry: \"{}\"\nmodules:\n", def["entry"].as_str().unwrap());
    for (name, m) in def["mods"].as_object().unwrap() {
        let gens: Vec<String> = m["gen"].as_array().unwrap().iter().map(|g| format!("{} <- {}", g["bind"].as_str().unwrap(), g["bound"].as_str().unwrap())).collect();
        let key = if gens.is_empty() { name.clone() } else { format!("{}({})", name, gens.join(", ")) };
        y.push_str(&format!("  \"{key}\":\n"));
        let mut any = false;
        if m["inherit"].as_str().unwrap() != "" {
            y.push_str(&format!("    inherit: \"{}\"\n", m["inherit"].as_str().unwrap()));
            any = true;
        }
        let gates = m["gates"].as_array().unwrap();
        if !gates.is_empty() {
            y.push_str("    gates:\n");
            for g in gates {
                y.push_str(&format!("      - \"{}\"\n", field(g)));
            }
            any = true;
        }
        let subs = m["subs"].as_array().unwrap();
        if !subs.is_empty() {
            y.push_str("    submodules:\n");
            for s in subs {
                let args: Vec<&str> = s["args"].as_array().unwrap().iter().map(|a| a.as_str().unwrap()).collect();
                let typ = if args.is_empty() { s["typ"].as_str().unwrap().to_string() } else { format!("{}({})", s["typ"].as_str().unwrap(), args.join(", ")) };
                y.push_str(&format!("      \"{}\": \"{}\"\n", field(s), typ));
            }
            any = true;
        }
        let conns = m["conns"].as_array().unwrap();
        if !conns.is_empty() {
            y.push_str("    connections:\n");
            for c in conns {
                y.push_str(&format!("      - peers: [\"{}\", \"{}\"]\n", endpoint(&c["a"]), endpoint(&c["b"])));
                if c["link"].as_str().unwrap() != "" {
                    y.push_str(&format!("        link: \"{}\"\n", c["link"].as_str().unwrap()));
                }
            }
            any = true;
        }
        if !any {
            y.truncate(y.len() - 1);
            y.push_str(" {}\n");
        }
    }
    y.push_str("links:\n  L1: {latency: 0.001, jitter: 0.0, bitrate: 1000}\n  L2: {latency: 0.005, jitter: 0.0, bitrate: 0}\n  L3: {bitrate: 500}\n");
    y
}

fn class_of(k: &ErrorKind) -> &'static str {
    match k {
        ErrorKind::UnresolvableDependency(_) => "unresolvable_dependency",
        ErrorKind::InvalidGate(..) => "invalid_gate",
        ErrorKind::InvalidSubmodule(..) => "invalid_submodule",
        ErrorKind::InvalidTypStatement(..) => "invalid_typ_statement",
        ErrorKind::AssignedTypDoesNotConformToInterface(_) => "not_conform",
        ErrorKind::SymbolAlreadyDefined(_) => "symbol_already_defined",
        ErrorKind::UnknownGateInConnection(_) => "unknown_gate",
        ErrorKind::UnknownSubmoduleInConnection(_) => "unknown_submodule",
        ErrorKind::ConnectionIndexOutOfBounds(_) => "index_out_of_bounds",
        ErrorKind::UnequalPeers(..) => "unequal_peers",
        ErrorKind::UnknownLink(_) => "unknown_link",
        ErrorKind::UnknownModule(_) => "unknown_module",
        ErrorKind::MissingRegistrySymbol(..) => "missing_registry_symbol",
        ErrorKind::Io(_) => "io",
        ErrorKind::Other => "other",
    }
}

fn seg(s: &Value) -> String {
    let k = s[1].as_i64().unwrap();
    if k < 0 { s[0].as_str().unwrap().to_string() } else { format!("{}[{}]", s[0].as_str().unwrap(), k) }
}
fn mod_path(p: &Value) -> String {
    p.as_array().unwrap().iter().map(seg).collect::<Vec<_>>().join(".")
}
/// gate path as (module path, gate name, position)
fn gate_of(g: &Value) -> (String, String, usize) {
    let k = g["gate"][1].as_i64().unwrap();
    (mod_path(&g["mod"]), g["gate"][0].as_str().unwrap().to_string(), if k < 0 { 0 } else { k as usize })
}

fn link_params(l: &str) -> Option<(u64, u64, usize)> {
    // latency ns, jitter ns, bitrate
    match l {
        "L1" => Some((1_000_000, 0, 1000)),
        "L2" => Some((5_000_000, 0, 0)),
        "L3" => Some((0, 0, 500)),
        _ => None,
    }
}

type Adj = BTreeSet<((String, String, usize), (String, String, usize), Option<(u64, u64, usize)>)>;

fn replay_one(v: &Value) -> Result<u64, Value> {
    silence_panics();
    let yaml = yaml_of(&v["def"]);
    let elab = &v["elab"];
    let exp_ok = elab["ok"].as_bool().unwrap();
    let exp_errs: BTreeSet<String> = elab["errors"].as_array().map(|a| a.iter().map(|x| x.as_str().unwrap().to_string()).collect()).unwrap_or_default();
    // (1) parsing + elaboration are total
    let parsed = catch_unwind(AssertUnwindSafe(|| serde_yml::from_str::<Def>(&yaml)));
    let def = match parsed {
        Err(_) => return Err(json!({"field": "parsing the description panicked", "yaml": yaml})),
        Ok(Err(e)) => {
            // a malformed clause may already be refused by the parser: that is a descriptive error as well
            return if exp_ok { Err(json!({"field": "a valid description was refused by the parser", "err": e.to_string(), "yaml": yaml})) } else { Ok(1) };
        }
        Ok(Ok(d)) => d,
    };
    let res = catch_unwind(AssertUnwindSafe(|| transform(&def)));
    let res = match res {
        Err(_) => return Err(json!({"field": "elaboration panicked instead of returning an error", "expected_errors": exp_errs, "yaml": yaml})),
        Ok(r) => r,
    };
    match (&res, exp_ok) {
        (Ok(_), false) => return Err(json!({"field": "a faulty description was accepted", "expected_errors": exp_errs, "yaml": yaml})),
        (Err(e), true) => return Err(json!({"field": "a valid description was rejected", "got": format!("{:?}", e.kind), "yaml": yaml})),
        (Err(e), false) => {
            let c = class_of(&e.kind);
            if !exp_errs.contains("crash") && !exp_errs.contains(c) {
                return Err(json!({"field": "error class of a faulty description", "expected_one_of": exp_errs, "got": c, "yaml": yaml}));
            }
            return Ok(2);
        }
        (Ok(_), true) => {}
    }
    if !elab["realisable"].as_bool().unwrap() {
        return Ok(2);
    }
    // (2) the built simulation contains exactly what the description denotes
    let built = catch_unwind(AssertUnwindSafe(|| {
        let mut sim = Sim::new(());
        let reg = Registry::new()
            .symbol_fn("Leaf", |_| TypedProbe { ty: "Leaf" })
            .symbol_fn("Leaf2", |_| TypedProbe { ty: "Leaf2" })
            .symbol_fn("Other", |_| TypedProbe { ty: "Other" })
            .symbol_fn("Iface", |_| TypedProbe { ty: "Iface" })
            .symbol_fn("ImplMore", |_| TypedProbe { ty: "ImplMore" })
            .symbol_fn("ImplLess", |_| TypedProbe { ty: "ImplLess" })
            .symbol_fn("ImplGateLess", |_| TypedProbe { ty: "ImplGateLess" })
            .symbol_fn("ImplWrongSub", |_| TypedProbe { ty: "ImplWrongSub" })
            .symbol_fn("GBox", |_| TypedProbe { ty: "GBox" })
            .symbol_fn("Pair", |_| TypedProbe { ty: "Pair" })
            .symbol_fn("Box", |_| TypedProbe { ty: "Box" })
            .symbol_fn("Mid", |_| TypedProbe { ty: "Mid" })
            .symbol_fn("Main", |_| TypedProbe { ty: "Main" });
        let r = sim.nodes_from_ndl(&def, reg);
        (sim, r.map_err(|e| format!("{:?}", e.kind)))
    }));
    let (sim, r) = match built {
        Err(_) => return Err(json!({"field": "building the simulation from a realisable description panicked", "yaml": yaml})),
        Ok(x) => x,
    };
    if let Err(e) = r {
        return Err(json!({"field": "building the simulation from a realisable description failed", "got": e, "yaml": yaml}));
    }
    let mut checks = 3u64;
    let globals = sim.globals();
    // modules
    let exp_mods: BTreeSet<(String, String)> = elab["modules"].as_array().unwrap().iter().map(|m| (mod_path(&m["path"]), m["typ"].as_str().unwrap().to_string())).collect();
    let mut got_mods = BTreeSet::new();
    for p in sim.nodes() {
        let m = globals.get(&p).unwrap();
        let ty = m.try_as_ref::<TypedProbe>().map(|t| t.ty.to_string()).unwrap_or_else(|| "?".into());
        got_mods.insert((p.as_str().to_string(), ty));
    }
    if got_mods != exp_mods {
        return Err(json!({"field": "modules (path, software) of the built simulation", "expected": exp_mods, "got": got_mods, "yaml": yaml}));
    }
    // gates
    let mut exp_gates: BTreeSet<(String, String, usize, usize)> = BTreeSet::new();
    for m in elab["modules"].as_array().unwrap() {
        for g in m["gates"].as_array().unwrap() {
            let k = g["k"].as_i64().unwrap();
            let n = if k < 0 { 1 } else { k as usize };
            for i in 0..n {
                exp_gates.insert((mod_path(&m["path"]), g["id"].as_str().unwrap().to_string(), n, i));
            }
        }
    }
    let mut got_gates = BTreeSet::new();
    let mut adj: Adj = BTreeSet::new();
    for p in sim.nodes() {
        let m = globals.get(&p).unwrap();
        for g in m.gates() {
            got_gates.insert((p.as_str().to_string(), g.name().to_string(), g.size(), g.pos()));
            for slot in 0..2usize {
                // Connection{endpoint_id: 1 - slot}.next_hop() reads connection slot `slot`
                let probe = Connection { endpoint: g.clone(), endpoint_id: 1 - slot, channel: None };
                if let Some(c) = probe.next_hop() {
                    let peer = &c.endpoint;
                    let link = c.channel().map(|ch| {
                        let mt = ch.metrics();
                        (mt.latency.as_nanos() as u64, mt.jitter.as_nanos() as u64, mt.bitrate)
                    });
                    adj.insert(((p.as_str().to_string(), g.name().to_string(), g.pos()), (peer.owner().path().as_str().to_string(), peer.name().to_string(), peer.pos()), link));
                }
            }
        }
    }
    if got_gates != exp_gates {
        return Err(json!({"field": "gates (module, name, cluster size, position) of the built simulation", "expected": exp_gates, "got": got_gates, "yaml": yaml}));
    }
    let mut exp_adj: Adj = BTreeSet::new();
    for c in elab["conns"].as_array().unwrap() {
        let (a, b) = (gate_of(&c["a"]), gate_of(&c["b"]));
        let l = link_params(c["link"].as_str().unwrap());
        exp_adj.insert((a.clone(), b.clone(), l));
        exp_adj.insert((b, a, l));
    }
    if adj != exp_adj {
        let missing: Vec<_> = exp_adj.difference(&adj).collect();
        let extra: Vec<_> = adj.difference(&exp_adj).collect();
        return Err(json!({"field": "connections (gate, peer gate, link delay parameters) of the built simulation", "missing": format!("{missing:?}"), "unexpected": format!("{extra:?}"), "yaml": yaml}));
    }
    checks += (exp_mods.len() + exp_gates.len() + exp_adj.len()) as u64;
    drop(globals);
    drop(sim);
    Ok(checks)
}

pub fn replay(args: &[String]) {
    let path = &args[0];
    let mut s = Summary::default();
    for_each_line(path, |li, v| {
        s.behaviours += 1;
        s.replays += 1;
        if li < 1 {
            s.sample(json!({"p": v["p"], "yaml": yaml_of(&v["def"]), "elab_ok": v["elab"]["ok"], "errors": v["elab"]["errors"]}));
        }
        if !v["elab"]["ok"].as_bool().unwrap() || v["elab"]["realisable"] == true {
            s.nontrivial += 1;
        }
        if v["elab"]["ok"] == true {
            s.bump("valid_descriptions", 1);
        }
        watchdog::enter(|| json!({"p": v["p"]}).to_string());
        match replay_one(&v) {
            Ok(c) => s.checks += c,
            Err(mut m) => {
                m["p"] = v["p"].clone();
                m["behaviour"] = v.clone();
                s.mismatch(m);
            }
        }
    });
    s.print();
}

// ------------------------------------------------------------------ string grammar (totality of parsing)

fn yaml_str(s: &str) -> String {
    format!("\"{}\"", s.replace('\\', "\\\\").replace('"', "\\\""))
}

/// a small valid description with one string-typed position replaced by `s`
fn doc_with(kind: &str, s: &str) -> String {
    let q = yaml_str(s);
    match kind {
        "modkey" => format!("entry: M\nmodules:\n  M: {{}}\n  {q}: {{}}\n"),
        "subtyp" => format!("entry: M\nmodules:\n  L: {{}}\n  M:\n    submodules:\n      s: {q}\n"),
        "gate" => format!("entry: M\nmodules:\n  M:\n    gates:\n      - {q}\n"),
        "subname" => format!("entry: M\nmodules:\n  L: {{}}\n  M:\n    submodules:\n      {q}: L\n"),
        _ => format!("entry: M\nmodules:\n  M:\n    gates:\n      - g\n    connections:\n      - peers: [g, {q}]\n"),
    }
}

pub fn grammar(args: &[String]) {
    let path = &args[0];
    let mut s = Summary::default();
    for_each_line(path, |li, v| {
        s.behaviours += 1;
        s.replays += 1;
        let kind = v["kind"].as_str().unwrap();
        let text: String = v["tokens"].as_array().unwrap().iter().map(|t| t.as_str().unwrap()).collect();
        let exp_ok = v["ok"].as_bool().unwrap();
        if li < 2 {
            s.sample(json!({"kind": kind, "string": text, "accepted": exp_ok}));
        }
        if text.contains('(') || text.contains('[') || text.contains('/') {
            s.nontrivial += 1;
        }
        let yaml = doc_with(kind, &text);
        silence_panics();
        watchdog::enter(|| json!({"kind": kind, "string": text}).to_string());
        let parsed = catch_unwind(AssertUnwindSafe(|| serde_yml::from_str::<Def>(&yaml)));
        match parsed {
            Err(_) => s.mismatch(json!({"field": format!("parsing a {kind} string panicked"), "string": text, "behaviour": v})),
            Ok(r) => {
                if r.is_ok() != exp_ok {
                    s.mismatch(json!({"field": format!("a {kind} string is {} by the parser", if r.is_ok() { "accepted" } else { "refused" }), "string": text, "expected_accepted": exp_ok,
                                      "err": r.as_ref().err().map(|e| e.to_string()), "behaviour": v}));
                } else if let Ok(def) = r {
                    // whatever the accepted string means, elaboration must return
                    if catch_unwind(AssertUnwindSafe(|| transform(&def).map(|_| ()))).is_err() {
                        s.mismatch(json!({"field": format!("elaboration of a description with an accepted {kind} string panicked"), "string": text, "behaviour": v}));
                    } else {
                        s.checks += 2;
                    }
                } else {
                    s.checks += 1;
                }
            }
        }
    });
    s.print();
}

/// `vh ndl raw <yaml file>`: parse + elaborate one description given as YAML text (debugging aid)
pub fn raw(args: &[String]) {
    let text = std::fs::read_to_string(&args[0]).expect("file");
    let parsed = catch_unwind(AssertUnwindSafe(|| serde_yml::from_str::<Def>(&text)));
    match parsed {
        Err(_) => println!("{}", json!({"parse": "panic"})),
        Ok(Err(e)) => println!("{}", json!({"parse": "error", "err": e.to_string()})),
        Ok(Ok(def)) => match catch_unwind(AssertUnwindSafe(|| transform(&def).map(|_| ()))) {
            Err(_) => println!("{}", json!({"parse": "ok", "transform": "panic"})),
            Ok(Err(e)) => println!("{}", json!({"parse": "ok", "transform": "error", "err": format!("{e:?}")})),
            Ok(Ok(())) => println!("{}", json!({"parse": "ok", "transform": "ok"})),
        },
    }
}
