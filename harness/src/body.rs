//! Suite `body`: des::net::message bodies against Body.tla (C16).
use crate::common::*;
use des::prelude::*;
use serde_json::{json, Value};
use std::any::Any;
use std::cell::RefCell;
use std::panic::{catch_unwind, AssertUnwindSafe};

thread_local! {
    static DROPS: RefCell<Vec<u32>> = const { RefCell::new(Vec::new()) };
    static NEXT_CLONE: RefCell<usize> = const { RefCell::new(0) };
}

/// Counts destructor runs per cell; declared byte length 0 so that it does not disturb the sums.
#[derive(Debug, PartialEq)]
struct Tracker(usize);
impl Clone for Tracker {
    fn clone(&self) -> Self {
        Tracker(NEXT_CLONE.with(|n| *n.borrow()))
    }
}
impl Drop for Tracker {
    fn drop(&mut self) {
        DROPS.with(|d| {
            let mut d = d.borrow_mut();
            if d.len() <= self.0 {
                d.resize(self.0 + 1, 0);
            }
            d[self.0] += 1;
        });
    }
}
impl MessageBody for Tracker {
    fn byte_len(&self) -> usize {
        0
    }
}

#[derive(Debug, Clone, PartialEq, MessageBody)]
struct StructA {
    a: u16,
    b: String,
    c: Option<u32>,
    t: Tracker,
}

#[derive(Debug, Clone, PartialEq, MessageBody)]
enum EnumE {
    Unit,
    Tuple(u8, u64, Tracker),
    Named { x: String, inner: StructA },
}

#[derive(Debug, Clone, PartialEq, MessageBody)]
struct Gen<T: MessageBody> {
    v: T,
    w: T,
    t: Tracker,
}

#[derive(Debug, PartialEq)]
struct NoClone(u32, Tracker);
impl MessageBody for NoClone {
    fn byte_len(&self) -> usize {
        7
    }
}

thread_local! {
    static ZST_DROPS: RefCell<u32> = const { RefCell::new(0) };
}
/// zero-sized body type with a destructor (counted globally: it cannot carry a cell id)
#[derive(Debug, Clone, PartialEq)]
struct Zst;
impl Drop for Zst {
    fn drop(&mut self) {
        ZST_DROPS.with(|d| *d.borrow_mut() += 1);
    }
}
impl MessageBody for Zst {
    fn byte_len(&self) -> usize {
        0
    }
}
fn wrapped_deque() -> std::collections::VecDeque<u8> {
    let mut d = std::collections::VecDeque::with_capacity(4);
    d.push_back(3u8);
    d.push_back(4);
    d.push_front(2);
    d.push_front(1); // the ring buffer now wraps around: as_slices() yields two non-empty slices
    d
}

fn tracked(kind: &str) -> bool {
    matches!(kind, "stA" | "stB" | "enT" | "enN" | "gen" | "ncl")
}

fn st_a(cell: usize) -> StructA {
    StructA { a: 513, b: "four".into(), c: Some(99), t: Tracker(cell) }
}

/// canonical message of a kind; `cell` feeds the drop tracker
fn make(kind: &str, cell: usize) -> Message {
    fill(Message::default().id(cell as u16), kind, cell)
}

/// stores the canonical value of `kind` in `m` (replacing whatever body it had)
fn fill(m: Message, kind: &str, cell: usize) -> Message {
    match kind {
        "u32a" => m.with_content(0xDEAD_BEEFu32),
        "i32a" => m.with_content(-7i32),
        "f32a" => m.with_content(1.5f32),
        "arr4" => m.with_content([1u8, 2, 3, 4]),
        "str5" => m.with_content(String::from("hello")),
        "str0" => m.with_content(String::new()),
        "vec3" => m.with_content(vec![9u8, 8, 7]),
        "unit" => m.with_content(()),
        "optS" => m.with_content(Some(77u64)),
        "optN" => m.with_content(None::<u64>),
        "resE" => m.with_content(Err::<u8, String>("bad".into())),
        "stA" => m.with_content(st_a(cell)),
        "stB" => m.with_content(StructA { a: 1, b: String::new(), c: None, t: Tracker(cell) }),
        "enU" => m.with_content(EnumE::Unit),
        "enT" => m.with_content(EnumE::Tuple(3, 1 << 40, Tracker(cell))),
        "enN" => m.with_content(EnumE::Named { x: "sixsix".into(), inner: st_a(cell) }),
        "gen" => m.with_content(Gen { v: 10u16, w: 20u16, t: Tracker(cell) }),
        "zst" => m.with_content(Zst),
        "dq" => m.with_content(wrapped_deque()),
        "ncl" => {
            let mut m = m;
            m.set_content_non_clonable(NoClone(5, Tracker(cell)));
            m
        }
        other => panic!("unknown kind {other}"),
    }
}

/// which kind (if any) is this value the canonical value of?
fn kind_of(v: &dyn Any) -> Option<&'static str> {
    macro_rules! is {
        ($t:ty, $($val:expr => $k:expr),+) => {
            if let Some(x) = v.downcast_ref::<$t>() {
                $( if *x == $val { return Some($k); } )+
                return Some("?corrupted");
            }
        };
    }
    is!(u32, 0xDEAD_BEEFu32 => "u32a");
    is!(i32, -7i32 => "i32a");
    is!(f32, 1.5f32 => "f32a");
    is!([u8; 4], [1u8, 2, 3, 4] => "arr4");
    is!(String, String::from("hello") => "str5", String::new() => "str0");
    is!(Vec<u8>, vec![9u8, 8, 7] => "vec3");
    is!((), () => "unit");
    is!(Option<u64>, Some(77u64) => "optS", None::<u64> => "optN");
    is!(Result<u8, String>, Err::<u8, String>("bad".into()) => "resE");
    if let Some(x) = v.downcast_ref::<StructA>() {
        return Some(if x.a == 513 && x.b == "four" && x.c == Some(99) { "stA" } else if x.a == 1 && x.b.is_empty() && x.c.is_none() { "stB" } else { "?corrupted" });
    }
    if let Some(x) = v.downcast_ref::<EnumE>() {
        return Some(match x {
            EnumE::Unit => "enU",
            EnumE::Tuple(3, b, _) if *b == 1 << 40 => "enT",
            EnumE::Named { x, inner } if x == "sixsix" && inner.a == 513 && inner.b == "four" => "enN",
            _ => "?corrupted",
        });
    }
    if let Some(x) = v.downcast_ref::<Gen<u16>>() {
        return Some(if x.v == 10 && x.w == 20 { "gen" } else { "?corrupted" });
    }
    if let Some(x) = v.downcast_ref::<NoClone>() {
        return Some(if x.0 == 5 { "ncl" } else { "?corrupted" });
    }
    if v.downcast_ref::<Zst>().is_some() {
        return Some("zst");
    }
    if let Some(x) = v.downcast_ref::<std::collections::VecDeque<u8>>() {
        return Some(if x.iter().copied().eq([1u8, 2, 3, 4]) { "dq" } else { "?corrupted" });
    }
    if v.downcast_ref::<u64>().is_some() {
        return Some("?u64");
    }
    None
}

macro_rules! by_type {
    ($ty:expr, $f:ident, $($arg:expr),*) => {
        match $ty {
            "u32" => $f::<u32>($($arg),*),
            "i32" => $f::<i32>($($arg),*),
            "f32" => $f::<f32>($($arg),*),
            "[u8;4]" => $f::<[u8; 4]>($($arg),*),
            "String" => $f::<String>($($arg),*),
            "Vec<u8>" => $f::<Vec<u8>>($($arg),*),
            "()" => $f::<()>($($arg),*),
            "Option<u64>" => $f::<Option<u64>>($($arg),*),
            "Result<u8,String>" => $f::<Result<u8, String>>($($arg),*),
            "StructA" => $f::<StructA>($($arg),*),
            "EnumE" => $f::<EnumE>($($arg),*),
            "Gen<u16>" => $f::<Gen<u16>>($($arg),*),
            "NoClone" => $f::<NoClone>($($arg),*),
            "Zst" => $f::<Zst>($($arg),*),
            "VecDeque<u8>" => $f::<std::collections::VecDeque<u8>>($($arg),*),
            "u64" => $f::<u64>($($arg),*),
            other => panic!("unknown type {other}"),
        }
    };
}

fn peek<T: 'static + MessageBody>(m: &Message) -> (Option<&'static str>, bool) {
    let c = m.try_content::<T>();
    (c.and_then(|v| kind_of(v as &dyn Any)), m.can_cast::<T>())
}

fn cast<T: 'static + MessageBody + Send>(m: Message) -> Result<(&'static str, Box<dyn Any>), Message> {
    match m.try_cast::<T>() {
        Ok((v, _h)) => {
            let k = kind_of(&v as &dyn Any).unwrap_or("?unknown");
            Ok((k, Box::new(v)))
        }
        Err(m) => Err(m),
    }
}

fn drops(cell: usize) -> u32 {
    DROPS.with(|d| d.borrow().get(cell).copied().unwrap_or(0))
}

fn fail(step: usize, field: &str, exp: impl std::fmt::Debug, got: impl std::fmt::Debug) -> Value {
    json!({"step": step, "field": field, "expected": format!("{exp:?}"), "got": format!("{got:?}")})
}

fn replay_one(beh: &[Value]) -> Result<u64, Value> {
    DROPS.with(|d| d.borrow_mut().clear());
    ZST_DROPS.with(|d| *d.borrow_mut() = 0);
    let mut hold: Vec<Option<Message>> = (0..4).map(|_| None).collect();
    let mut cell_of: Vec<usize> = vec![0; 4]; // handle -> cell id (0 = none)
    let mut kinds: Vec<String> = vec![String::new()]; // cell id -> kind
    let mut out: Vec<(usize, Box<dyn Any>)> = Vec::new();
    let mut checks = 0u64;
    let check_counts = |kinds: &Vec<String>, hold: &Vec<Option<Message>>, cell_of: &Vec<usize>, out: &Vec<(usize, Box<dyn Any>)>, step: usize| -> Result<(), Value> {
        // zero-sized bodies are counted globally
        let zst_unheld = (1..kinds.len()).filter(|c| kinds[*c] == "zst" && !((0..hold.len()).any(|h| hold[h].is_some() && cell_of[h] == *c) || out.iter().any(|(x, _)| x == c))).count() as u32;
        let zd = ZST_DROPS.with(|d| *d.borrow());
        if zd != zst_unheld {
            return Err(fail(step, "drop count of zero-sized body values", zst_unheld, zd));
        }
        for c in 1..kinds.len() {
            if !tracked(&kinds[c]) {
                continue;
            }
            let held = (0..hold.len()).any(|h| hold[h].is_some() && cell_of[h] == c) || out.iter().any(|(x, _)| *x == c);
            let exp = if held { 0 } else { 1 };
            if drops(c) != exp {
                return Err(fail(step, &format!("drop count of body value (kind {})", kinds[c]), exp, drops(c)));
            }
        }
        Ok(())
    };
    for (i, e) in beh.iter().enumerate() {
        let h = e["h"].as_u64().unwrap_or(0) as usize;
        match e["op"].as_str().unwrap() {
            "new" => {
                let cell = kinds.len();
                let kind = e["kind"].as_str().unwrap();
                kinds.push(kind.to_string());
                let m = make(kind, cell);
                if m.length() as u64 != e["len"].as_u64().unwrap() {
                    return Err(fail(i, &format!("length of a message with body kind {kind}"), &e["len"], m.length()));
                }
                hold[h] = Some(m);
                cell_of[h] = cell;
                checks += 1;
            }
            "replace" => {
                let cell = kinds.len();
                let kind = e["kind"].as_str().unwrap();
                kinds.push(kind.to_string());
                let old = hold[h].take().unwrap();
                let id_before = old.header().id;
                let Ok(m) = catch_unwind(AssertUnwindSafe(|| fill(old, kind, cell))) else { return Err(fail(i, "replacing the body panicked", "ok", "panic")) };
                if m.length() as u64 != e["len"].as_u64().unwrap() {
                    return Err(fail(i, &format!("length of a message whose body was replaced by kind {kind}"), &e["len"], m.length()));
                }
                if m.header().id != id_before {
                    return Err(fail(i, "header id after replacing the body", id_before, m.header().id));
                }
                hold[h] = Some(m);
                cell_of[h] = cell;
                checks += 2;
            }
            "new_empty" => {
                let m = Message::default();
                if m.length() != 64 {
                    return Err(fail(i, "length of a message without body", 64, m.length()));
                }
                hold[h] = Some(m);
                cell_of[h] = 0;
                checks += 1;
            }
            "try_clone" => {
                let g = e["g"].as_u64().unwrap() as usize;
                let cell = kinds.len();
                NEXT_CLONE.with(|n| *n.borrow_mut() = cell);
                let src = hold[h].as_ref().unwrap();
                let Ok(r) = catch_unwind(AssertUnwindSafe(|| src.try_clone())) else { return Err(fail(i, "try_clone panicked", "value", "panic")) };
                match (r, e["res"].as_str().unwrap()) {
                    (Some(m), "some") => {
                        if m.length() as u64 != e["len"].as_u64().unwrap() {
                            return Err(fail(i, "length of a cloned message", &e["len"], m.length()));
                        }
                        if m.header().id != src.header().id || m.header().kind != src.header().kind {
                            return Err(fail(i, "header of a cloned message", src.header().id, m.header().id));
                        }
                        if cell_of[h] != 0 {
                            kinds.push(kinds[cell_of[h]].clone());
                            cell_of[g] = cell;
                        } else {
                            cell_of[g] = 0;
                        }
                        hold[g] = Some(m);
                    }
                    (None, "none") => {}
                    (r, exp) => return Err(fail(i, "try_clone result", exp, r.is_some())),
                }
                checks += 2;
            }
            "try_cast" => {
                let ty = e["ty"].as_str().unwrap();
                let m = hold[h].take().unwrap();
                let len_before = m.length();
                let r = catch_unwind(AssertUnwindSafe(|| by_type!(ty, cast, m)));
                let Ok(r) = r else { return Err(fail(i, "try_cast panicked", "value", "panic")) };
                match (r, e["res"].as_str().unwrap()) {
                    (Ok((k, v)), "ok") => {
                        if k != e["kind"].as_str().unwrap() {
                            return Err(fail(i, "value cast out of the message", &e["kind"], k));
                        }
                        out.push((cell_of[h], v));
                        cell_of[h] = 0;
                    }
                    (Err(m), "err") => {
                        if m.length() != len_before {
                            return Err(fail(i, "message after a failed cast", len_before, m.length()));
                        }
                        hold[h] = Some(m);
                    }
                    (Ok((k, _)), "err") => return Err(fail(i, &format!("cast to a type the body was not created with succeeded ({ty})"), "Err", k)),
                    (Err(_), _) => return Err(fail(i, &format!("cast to the body's own type failed ({ty})"), "Ok", "Err")),
                    _ => unreachable!(),
                }
                checks += 2;
            }
            "peek" => {
                let ty = e["ty"].as_str().unwrap();
                let m = hold[h].as_ref().unwrap();
                let (k, can) = by_type!(ty, peek, m);
                let want_some = e["res"] == "some";
                if k.is_some() != want_some || can != want_some {
                    return Err(fail(i, &format!("try_content/can_cast at type {ty}"), &e["res"], (k, can)));
                }
                if want_some && k != e["kind"].as_str() {
                    return Err(fail(i, "value read through try_content", &e["kind"], k));
                }
                if m.length() as u64 != e["len"].as_u64().unwrap() {
                    return Err(fail(i, "Message::length", &e["len"], m.length()));
                }
                checks += 3;
            }
            "drop" => {
                let m = hold[h].take();
                if catch_unwind(AssertUnwindSafe(|| drop(m))).is_err() {
                    return Err(fail(i, "drop of a message panicked", "ok", "panic"));
                }
                cell_of[h] = 0;
            }
            "drop_out" => {
                let c = e["cell"].as_u64().unwrap() as usize;
                let pos = out.iter().position(|(x, _)| *x == c).expect("spec drops a value that was not moved out");
                let (_, v) = out.swap_remove(pos);
                drop(v);
            }
            "init" => {}
            other => panic!("unknown op {other}"),
        }
        check_counts(&kinds, &hold, &cell_of, &out, i)?;
        checks += 1;
    }
    // the client program ends: everything it still holds is dropped
    hold.clear();
    out.clear();
    let nz = (1..kinds.len()).filter(|c| kinds[*c] == "zst").count() as u32;
    if ZST_DROPS.with(|d| *d.borrow()) != nz {
        return Err(fail(beh.len(), "final drop count of zero-sized body values", nz, ZST_DROPS.with(|d| *d.borrow())));
    }
    for c in 1..kinds.len() {
        if tracked(&kinds[c]) && drops(c) != 1 {
            return Err(fail(beh.len(), &format!("final drop count of body value (kind {})", kinds[c]), 1, drops(c)));
        }
    }
    Ok(checks)
}

pub fn replay(args: &[String]) {
    let path = &args[0];
    let mut s = Summary::default();
    for_each_line(path, |li, v| {
        s.behaviours += 1;
        s.replays += 1;
        if li < 2 {
            s.sample(v.clone());
        }
        let beh = v.as_array().unwrap();
        // non-trivial: a refused cast/peek at a different type, or a clone followed by a cast
        if beh.iter().any(|e| e["res"] == "err" || e["res"] == "none") && beh.iter().any(|e| e["res"] == "ok" || e["op"] == "try_clone") {
            s.nontrivial += 1;
        }
        watchdog::enter(|| v.to_string());
        match replay_one(beh) {
            Ok(c) => s.checks += c,
            Err(mut m) => {
                m["behaviour"] = v.clone();
                s.mismatch(m);
            }
        }
    });
    s.print();
}
