//! Shared helpers: replay-line decoding, summaries, silent panics, RNG.
use serde_json::{json, Value};
use std::io::{BufRead, BufReader};

/// Each line is the payload of a TLC `<<"REPLAY", "<json>">>` print: a TLA+ string literal
/// (JSON-compatible escaping) that contains JSON.
pub fn decode_line(line: &str) -> Option<Value> {
    let line = line.trim();
    if line.is_empty() {
        return None;
    }
    if line.starts_with('"') {
        let inner: String = serde_json::from_str(line).ok()?;
        serde_json::from_str(&inner).ok()
    } else {
        serde_json::from_str(line).ok()
    }
}

pub fn for_each_line(path: &str, mut f: impl FnMut(usize, Value)) {
    let fh = std::fs::File::open(path).expect("cannot open input file");
    for (i, line) in BufReader::new(fh).lines().enumerate() {
        let line = line.expect("read error");
        match decode_line(&line) {
            Some(v) => f(i, v),
            None => {
                if !line.trim().is_empty() {
                    eprintln!("undecodable line {i}");
                    std::process::exit(3);
                }
            }
        }
    }
}

pub fn silence_panics() {
    if std::env::var("VH_PANIC_VERBOSE").is_ok() {
        return;
    }
    std::panic::set_hook(Box::new(|_| {}));
}

#[derive(Default)]
pub struct Summary {
    pub behaviours: u64,
    pub replays: u64,
    pub checks: u64,
    pub nontrivial: u64,
    pub mismatch_count: u64,
    pub mismatches: Vec<Value>,
    pub samples: Vec<Value>,
    pub extra: serde_json::Map<String, Value>,
}

impl Summary {
    pub fn mismatch(&mut self, v: Value) {
        self.mismatch_count += 1;
        // keep at most 2 examples per distinct kind of mismatch ("field")
        let field = v["field"].as_str().unwrap_or("").to_string();
        let key = format!("mismatch_kind::{field}");
        let seen = self.extra.get(&key).and_then(Value::as_u64).unwrap_or(0);
        self.extra.insert(key, json!(seen + 1));
        if seen < 2 && self.mismatches.len() < 24 {
            self.mismatches.push(v);
        }
    }
    pub fn sample(&mut self, v: Value) {
        if self.samples.len() < 2 {
            self.samples.push(v);
        }
    }
    pub fn bump(&mut self, key: &str, by: u64) {
        let cur = self.extra.get(key).and_then(Value::as_u64).unwrap_or(0);
        self.extra.insert(key.to_string(), json!(cur + by));
    }
    pub fn print(&self) {
        let mut m = serde_json::Map::new();
        m.insert("behaviours".into(), json!(self.behaviours));
        m.insert("replays".into(), json!(self.replays));
        m.insert("checks".into(), json!(self.checks));
        m.insert("nontrivial".into(), json!(self.nontrivial));
        m.insert("mismatch_count".into(), json!(self.mismatch_count));
        m.insert("mismatches".into(), json!(self.mismatches));
        m.insert("samples".into(), json!(self.samples));
        m.insert("extra".into(), Value::Object(self.extra.clone()));
        println!("{}", Value::Object(m));
    }
}

/// splitmix64: tiny deterministic RNG for drivers (independent of the `rand` version in use).
pub struct Rng(pub u64);
impl Rng {
    pub fn next(&mut self) -> u64 {
        self.0 = self.0.wrapping_add(0x9E37_79B9_7F4A_7C15);
        let mut z = self.0;
        z = (z ^ (z >> 30)).wrapping_mul(0xBF58_476D_1CE4_E5B9);
        z = (z ^ (z >> 27)).wrapping_mul(0x94D0_49BB_1331_11EB);
        z ^ (z >> 31)
    }
    pub fn below(&mut self, n: u64) -> u64 {
        if n == 0 {
            0
        } else {
            self.next() % n
        }
    }
    pub fn chance(&mut self, num: u64, den: u64) -> bool {
        self.below(den) < num
    }
    pub fn pick<'a, T>(&mut self, xs: &'a [T]) -> &'a T {
        &xs[self.below(xs.len() as u64) as usize]
    }
}

pub fn arg_value(args: &[String], key: &str) -> Option<String> {
    args.iter().position(|a| a == key).and_then(|i| args.get(i + 1).cloned())
}

pub fn arg_u64(args: &[String], key: &str, default: u64) -> u64 {
    arg_value(args, key).and_then(|v| v.parse().ok()).unwrap_or(default)
}

/// Per-process watchdog: code under test that never returns (e.g. an endless bucket scan) must end
/// up as a verdict, not as a stuck check. The worker announces what it is about to run; if the
/// announcement does not change for `limit` seconds the process prints a summary with a `hang`
/// entry and exits.
pub mod watchdog {
    use std::sync::atomic::{AtomicU64, Ordering};
    use std::sync::Mutex;
    static TICK: AtomicU64 = AtomicU64::new(0);
    static WHAT: Mutex<String> = Mutex::new(String::new());

    /// CPU time (user + system) consumed by this process so far, in 1/100 s
    fn cpu_centis() -> u64 {
        let stat = std::fs::read_to_string("/proc/self/stat").unwrap_or_default();
        // fields after the command name (which may contain spaces): state is field 3, utime 14, stime 15
        let rest = stat.rsplit_once(')').map(|x| x.1).unwrap_or("");
        let f: Vec<&str> = rest.split_whitespace().collect();
        let g = |i: usize| f.get(i).and_then(|x| x.parse::<u64>().ok()).unwrap_or(0);
        g(11) + g(12)
    }

    /// A unit of work counts as hung when the process burnt `limit_secs` of CPU time on it without a progress
    /// tick (an endless loop), or - for a blocked process - when 15 x `limit_secs` of wall time passed.  Wall
    /// time alone is not used: on a loaded machine a worker can be descheduled for a long time.
    pub fn start(limit_secs: u64) {
        std::thread::spawn(move || {
            let mut last = TICK.load(Ordering::Relaxed);
            let mut cpu0 = cpu_centis();
            let mut wall0 = std::time::Instant::now();
            loop {
                std::thread::sleep(std::time::Duration::from_millis(500));
                let cur = TICK.load(Ordering::Relaxed);
                if cur != last {
                    last = cur;
                    cpu0 = cpu_centis();
                    wall0 = std::time::Instant::now();
                    continue;
                }
                let burnt = cpu_centis().saturating_sub(cpu0) / 100;
                if burnt >= limit_secs || wall0.elapsed().as_secs() >= 15 * limit_secs {
                    let what = WHAT.lock().map(|w| w.clone()).unwrap_or_default();
                    let v: serde_json::Value = serde_json::from_str(&what).unwrap_or(serde_json::Value::String(what));
                    println!("{}", serde_json::json!({"hang": v, "behaviours": 0, "replays": 0, "checks": 0, "nontrivial": 0, "mismatch_count": 0, "mismatches": [], "samples": [], "extra": {}}));
                    std::process::exit(0);
                }
            }
        });
    }

    /// cheap progress tick (call often)
    pub fn tick() {
        TICK.fetch_add(1, Ordering::Relaxed);
    }

    /// announce the unit of work that is about to run (JSON text)
    pub fn enter(what: impl FnOnce() -> String) {
        if let Ok(mut w) = WHAT.try_lock() {
            *w = what();
        }
        tick();
    }
}
