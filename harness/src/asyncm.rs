//! Suite `asyncm`: the async side of a module (tasks, timers, intervals, channels, restart) against
//! AsyncMod.tla (C05, C06, async part of C09).
use crate::common::*;
use des::net::module::Module;
use des::prelude::*;
use des::time::{interval, interval_at, sleep, sleep_until, timeout, timeout_at, MissedTickBehavior};
use serde_json::{json, Value};
use std::cell::RefCell;
use std::future::Future;
use std::panic::{catch_unwind, AssertUnwindSafe};
use std::pin::Pin;
use std::task::Poll;
use std::time::Duration;
use tokio::sync::mpsc::{unbounded_channel, UnboundedReceiver, UnboundedSender};

thread_local! {
    /// values captured by task futures that are currently alive (C20)
    static TASK_STATE_LIVE: RefCell<i64> = const { RefCell::new(0) };
    static OBS: RefCell<Vec<Vec<Value>>> = const { RefCell::new(Vec::new()) };
    static TICK: RefCell<Duration> = const { RefCell::new(Duration::from_secs(1)) };
}

fn tick() -> Duration {
    TICK.with(|t| *t.borrow())
}
fn ticks(d: Duration) -> i64 {
    let t = tick().as_nanos();
    if d.as_nanos() % t == 0 { (d.as_nanos() / t) as i64 } else { -1 }
}
fn record(task: usize, step: usize, res: Value, inc: u32) {
    let t = ticks(*SimTime::now());
    OBS.with(|o| o.borrow_mut()[task].push(json!({"step": step, "t": t, "res": res, "inc": inc})));
}

async fn poll_once<F: Future>(mut f: Pin<&mut F>) {
    std::future::poll_fn(|cx| {
        let _ = f.as_mut().poll(cx);
        Poll::Ready(())
    })
    .await;
}

struct Captured;
impl Captured {
    fn new() -> Self {
        TASK_STATE_LIVE.with(|l| *l.borrow_mut() += 1);
        Captured
    }
}
impl Drop for Captured {
    fn drop(&mut self) {
        TASK_STATE_LIVE.with(|l| *l.borrow_mut() -= 1);
    }
}

struct TaskIo {
    tx: Vec<UnboundedSender<()>>,
    rx: Option<(usize, UnboundedReceiver<()>)>,
}

async fn run_task(task: usize, prog: Vec<Value>, mut io: TaskIo, inc: u32) {
    let _captured = Captured::new();
    let mut ivl = None;
    for (i, s) in prog.iter().enumerate() {
        let step = i + 1;
        let a = s["a"].as_u64().unwrap_or(0);
        let b = s["b"].as_u64().unwrap_or(0);
        let da = tick() * a as u32;
        let db = tick() * b as u32;
        let res: Value = match s["k"].as_str().unwrap() {
            // odd tasks use the absolute-deadline variants of the API (sleep_until / timeout_at): same contract
            "sleep" => {
                let start = SimTime::now();
                let sl = if task % 2 == 1 { sleep_until(start + da) } else { sleep(da) };
                tokio::pin!(sl);
                let before = (sl.deadline() == start + da, sl.is_elapsed() == (a == 0));
                sl.as_mut().await;
                if before == (true, true) && sl.is_elapsed() && sl.deadline() == start + da {
                    json!("ok")
                } else {
                    json!("Sleep::deadline / is_elapsed disagree with the requested deadline")
                }
            }
            "tosleep" => {
                let r = if task % 2 == 1 { timeout_at(SimTime::now() + da, sleep_until(SimTime::now() + db)).await } else { timeout(da, sleep(db)).await };
                match r {
                    Ok(()) => json!("ok"),
                    Err(_) => json!("elapsed"),
                }
            }
            "tonever" => {
                let r = if task % 2 == 1 { timeout_at(SimTime::now() + da, std::future::pending::<()>()).await } else { timeout(da, std::future::pending::<()>()).await };
                match r {
                    Ok(()) => json!("ok"),
                    Err(_) => json!("elapsed"),
                }
            }
            "torecv" => {
                let (_, rx) = io.rx.as_mut().expect("task has a receiver");
                match timeout(da, rx.recv()).await {
                    Ok(Some(())) => json!("ok"),
                    Ok(None) => json!("closed"),
                    Err(_) => json!("elapsed"),
                }
            }
            "select" => {
                tokio::select! {
                    biased;
                    () = sleep(da) => json!("first"),
                    () = sleep(db) => json!("second"),
                }
            }
            "reset" => {
                let s = sleep(da);
                tokio::pin!(s);
                poll_once(s.as_mut()).await;
                s.as_mut().reset(SimTime::now() + db);
                s.await;
                json!("ok")
            }
            "handpoll" => {
                // first polled with a waker that is not this task's (as if another task had polled it), then awaited here
                let mut sl = Box::pin(sleep(da));
                {
                    let mut cx = std::task::Context::from_waker(std::task::Waker::noop());
                    let _ = sl.as_mut().poll(&mut cx);
                }
                sl.await;
                json!("ok")
            }
            "yield" => {
                tokio::task::yield_now().await;
                json!("ok")
            }
            "twin" => {
                // two timers of this task for the same deadline, both registered; the first one is dropped again
                let mut first = Box::pin(sleep(da));
                let mut second = Box::pin(sleep(da));
                poll_once(first.as_mut()).await;
                poll_once(second.as_mut()).await;
                drop(first);
                second.await;
                json!("ok")
            }
            "polldrop" => {
                {
                    let s = sleep(da);
                    tokio::pin!(s);
                    poll_once(s.as_mut()).await;
                }
                json!("ok")
            }
            "ivlnew" => {
                // b = 0: interval(period); b > 0: interval_at(now + b, period)
                let mut iv = if b == 0 { interval(da) } else { interval_at(SimTime::now() + db, da) };
                let (mode, name) = match s["m"].as_str().unwrap() {
                    "delay" => (MissedTickBehavior::Delay, "delay"),
                    "skip" => (MissedTickBehavior::Skip, "skip"),
                    _ => (MissedTickBehavior::Burst, "burst"),
                };
                iv.set_missed_tick_behavior(mode);
                let ok = iv.period() == da && iv.missed_tick_behavior() == mode;
                ivl = Some(iv);
                if ok { json!("ok") } else { json!(format!("accessors disagree: period / missed_tick_behavior ({name})")) }
            }
            "ivlreset" => {
                ivl.as_mut().expect("interval exists").reset();
                json!("ok")
            }
            "tick" => {
                let at = ivl.as_mut().expect("interval exists").tick().await;
                json!(["tick", ticks(*at)])
            }
            "send" => {
                let _ = io.tx[a as usize].send(());
                json!("ok")
            }
            "recv" => {
                let (_, rx) = io.rx.as_mut().expect("task has a receiver");
                match rx.recv().await {
                    Some(()) => json!("ok"),
                    None => json!("closed"),
                }
            }
            "sendself" => {
                schedule_in(Message::default(), da);
                json!("ok")
            }
            "restart" => {
                if inc == 1 {
                    current().shutdow_and_restart_in(da);
                }
                json!("ok")
            }
            "panic" => {
                record(task, step, json!("panic"), inc);
                panic!("scripted task panic")
            }
            other => panic!("unknown step {other}"),
        };
        record(task, step, res, inc);
    }
}

struct AMod {
    progs: Vec<Vec<Value>>,
    local: bool,
    inc: u32,
    tx0: std::rc::Rc<RefCell<Option<UnboundedSender<()>>>>,
    pe_forward: bool,
    /// 0 = ModuleContext::join, 1 = try_join, 2 = handle dropped
    join_mode: u8,
}

thread_local! {
    /// [event_start calls, event_end calls] seen by the bracket-counting element of the module
    static BRACKETS: RefCell<[u64; 2]> = const { RefCell::new([0; 2]) };
}

/// counts event_start / event_end: every module event (message, wake-up, start-up stage, tear-down) must close its bracket
struct Balance;
impl des::net::processing::ProcessingElement for Balance {
    fn event_start(&mut self) {
        BRACKETS.with(|b| b.borrow_mut()[0] += 1);
    }
    fn event_end(&mut self) {
        BRACKETS.with(|b| b.borrow_mut()[1] += 1);
    }
}

/// consumes every message of the module and forwards it into channel 0 (the module's handler never runs)
struct Forwarder {
    tx0: std::rc::Rc<RefCell<Option<UnboundedSender<()>>>>,
}
impl des::net::processing::ProcessingElement for Forwarder {
    fn incoming(&mut self, _msg: Message) -> Option<Message> {
        if let Some(tx) = self.tx0.borrow().as_ref() {
            let _ = tx.send(());
        }
        None
    }
}

impl Module for AMod {
    fn stack(&self, mut stack: des::net::processing::ProcessingStack) -> des::net::processing::ProcessingStack {
        stack.append(Balance);
        if self.pe_forward {
            stack.append(Forwarder { tx0: self.tx0.clone() });
        }
        stack
    }
    fn at_sim_start(&mut self, _stage: usize) {
        let n = self.progs.len();
        let nch = n + 2;
        let mut txs = Vec::new();
        let mut rxs: Vec<Option<UnboundedReceiver<()>>> = Vec::new();
        for _ in 0..nch {
            let (tx, rx) = unbounded_channel();
            txs.push(tx);
            rxs.push(Some(rx));
        }
        *self.tx0.borrow_mut() = Some(txs[0].clone());
        for t in 0..n {
            // the channel this task receives from (at most one: programs are race free)
            let mine = self.progs[t].iter().find_map(|s| match s["k"].as_str().unwrap() {
                "recv" => Some(s["a"].as_u64().unwrap() as usize),
                "torecv" => Some(s["b"].as_u64().unwrap() as usize),
                _ => None,
            });
            let io = TaskIo { tx: txs.clone(), rx: mine.and_then(|c| rxs[c].take().map(|r| (c, r))) };
            let fut = run_task(t, self.progs[t].clone(), io, self.inc);
            let h = if self.local { tokio::task::spawn_local(fut) } else { tokio::spawn(fut) };
            match self.join_mode {
                0 => current().join(h),
                1 => current().try_join(h),
                _ => drop(h),
            }
        }
    }
    fn handle_message(&mut self, _msg: Message) {
        if let Some(tx) = self.tx0.borrow().as_ref() {
            let _ = tx.send(());
        }
    }
    fn reset(&mut self) {
        self.inc += 1;
        *self.tx0.borrow_mut() = None;
    }
}

pub struct AOutcome {
    pub task_state_live: i64,
    pub obs: Vec<Vec<Value>>,
    pub not_finished: usize,
    pub task_panics: usize,
    pub other_errors: usize,
    pub panicked: bool,
    pub brackets: [u64; 2],
}

pub fn run_programs(progs: &[Vec<Value>], local: bool, tick_ns: u64, max_t: u64, pe_forward: bool) -> AOutcome {
    run_programs_join(progs, local, tick_ns, max_t, pe_forward, 0)
}

pub fn run_programs_join(progs: &[Vec<Value>], local: bool, tick_ns: u64, max_t: u64, pe_forward: bool, join_mode: u8) -> AOutcome {
    silence_panics();
    OBS.with(|o| *o.borrow_mut() = vec![Vec::new(); progs.len()]);
    TASK_STATE_LIVE.with(|l| *l.borrow_mut() = 0);
    BRACKETS.with(|b| *b.borrow_mut() = [0; 2]);
    TICK.with(|t| *t.borrow_mut() = Duration::from_nanos(tick_ns));
    let r = catch_unwind(AssertUnwindSafe(|| {
        let mut sim = Sim::new(());
        sim.node("m", AMod { progs: progs.to_vec(), local, inc: 1, tx0: std::rc::Rc::new(RefCell::new(None)), pe_forward, join_mode });
        let rt = Builder::seeded(5).quiet().max_time(SimTime::from_duration(Duration::from_nanos(tick_ns) * max_t as u32 + Duration::from_nanos(tick_ns / 2))).build(sim.freeze());
        rt.run()
    }));
    let mut out = AOutcome { task_state_live: 0, obs: Vec::new(), not_finished: 0, task_panics: 0, other_errors: 0, panicked: false, brackets: [0; 2] };
    match r {
        Err(_) => out.panicked = true,
        Ok(Ok(res)) => drop(res),      // (Sim, end time, profiler): released before the live counters are read
        Ok(Err(e)) => {
            for x in e.iter() {
                let txt = format!("{x}");
                if txt.contains("NotFinished") {
                    out.not_finished += 1;
                } else if txt.starts_with("m: Paniced") {
                    out.task_panics += 1;
                } else {
                    out.other_errors += 1;
                }
            }
        }
    }
    out.obs = OBS.with(|o| o.borrow().clone());
    out.brackets = BRACKETS.with(|b| *b.borrow());
    // everything (runtime result included) has been dropped by now
    out.task_state_live = TASK_STATE_LIVE.with(|l| *l.borrow());
    out
}

pub fn replay(args: &[String]) {
    let path = &args[0];
    let max_t = arg_u64(args, "--max-t", 12);
    let local_mode = arg_value(args, "--spawn").unwrap_or_else(|| "both".into());
    let tick_ns = arg_u64(args, "--tick-ns", 1_000_000_000);
    let pe_forward = arg_u64(args, "--pe-forward", 0) == 1;
    let mut s = Summary::default();
    for_each_line(path, |li, v| {
        s.behaviours += 1;
        let progs: Vec<Vec<Value>> = v["prog"].as_array().unwrap().iter().map(|p| p.as_array().unwrap().clone()).collect();
        let exp: Vec<Vec<Value>> = v["obs"].as_array().unwrap().iter().map(|p| p.as_array().unwrap().clone()).collect();
        if li < 1 {
            s.sample(json!({"prog": v["prog"], "obs": v["obs"]}));
        }
        let txt = v["prog"].to_string();
        let restart = txt.contains("\"restart\"");
        // non-trivial: a timer is dropped/reset before firing, or tasks wake each other
        if ["tosleep", "select", "reset", "polldrop", "torecv", "\"send\"", "restart", "tick"].iter().any(|k| txt.contains(k)) {
            s.nontrivial += 1;
        }
        let kinds: Vec<bool> = match local_mode.as_str() {
            "spawn" => vec![false],
            "local" => vec![true],
            _ => vec![false, true],
        };
        let join_modes: Vec<u8> = if arg_u64(args, "--join-modes", 0) == 1 { vec![0, 1, 2] } else { vec![0] };
        let kinds: Vec<(bool, u8)> = kinds.into_iter().flat_map(|l| join_modes.iter().map(move |j| (l, *j))).collect();
        for (local, join_mode) in kinds {
            s.replays += 1;
            watchdog::enter(|| json!({"prog": v["prog"], "spawn_local": local, "join_mode": join_mode}).to_string());
            let out = run_programs_join(&progs, local, tick_ns, max_t, pe_forward, join_mode);
            let mut fail = |field: String, extra: Value| {
                let mut m = json!({"field": field, "behaviour": v, "spawn_local": local, "join_mode": join_mode, "max_t": max_t, "tasks": progs.len(), "tick_ns": tick_ns, "pe_forward": pe_forward});
                if let Some(o) = extra.as_object() {
                    for (k, x) in o {
                        m[k] = x.clone();
                    }
                }
                s.mismatch(m);
            };
            if out.panicked {
                fail("running the simulation panicked".into(), json!({}));
                continue;
            }
            let mut bad = false;
            for t in 0..progs.len() {
                if out.obs[t] != exp[t] {
                    let i = (0..out.obs[t].len().min(exp[t].len())).find(|i| out.obs[t][*i] != exp[t][*i]).unwrap_or(out.obs[t].len().min(exp[t].len()));
                    let kind = exp[t].get(i).or(out.obs[t].get(i)).map(|e| progs[t][e["step"].as_u64().unwrap() as usize - 1]["k"].as_str().unwrap().to_string()).unwrap_or_default();
                    let what = match (exp[t].get(i), out.obs[t].get(i)) {
                        (Some(e), Some(g)) if e["t"] != g["t"] => "completes at the wrong time",
                        (Some(_), None) => "never completes",
                        (None, Some(_)) => "completes although the contract says it cannot",
                        _ => "completes with the wrong result",
                    };
                    fail(format!("an awaited '{kind}' step {what}"), json!({"task": t + 1, "index": i, "expected": exp[t].get(i), "got": out.obs[t].get(i), "got_obs": out.obs}));
                    bad = true;
                    break;
                }
            }
            if bad {
                continue;
            }
            if out.brackets[0] != out.brackets[1] || out.brackets[0] == 0 {
                fail("event_start / event_end calls of a processing element are not balanced over the run".into(), json!({"expected": "equal and > 0", "got": out.brackets}));
                continue;
            }
            if out.task_state_live != 0 {
                fail("state captured by spawned tasks still alive after the simulation was dropped".into(), json!({"got": out.task_state_live}));
                continue;
            }
            if !restart {
                // join: every unfinished task and every panicked task is reported; try_join: only the panicked ones;
                // handle dropped: nothing is reported
                let unf = if join_mode == 0 { v["unfinished"].as_array().unwrap().len() } else { 0 };
                let pan = if join_mode <= 1 { v.get("panicked").and_then(Value::as_array).map(|a| a.len()).unwrap_or(0) } else { 0 };
                if out.not_finished != unf || out.task_panics != pan || out.other_errors != 0 {
                    fail("run() result: joined tasks reported as not finished / panicked".into(), json!({"expected": [unf, pan], "got": [out.not_finished, out.task_panics], "other_errors": out.other_errors}));
                    continue;
                }
                if pan > 0 { s.bump("runs_reporting_task_panics", 1); }
            }
            s.checks += exp.iter().map(|e| e.len() as u64).sum::<u64>() + 1;
        }
    });
    s.print();
}
