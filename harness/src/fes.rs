//! Suite `fes`: des-cqueue::CQueue through its public API against the contract FES.tla.
//!
//! replay: TLC-generated behaviours (operations + demanded results) executed under a grid of
//!         (bucket count, bucket width) x time embeddings x payload types.
//! record: seeded adaptive random histories, logged as ndjson in abstract ticks for Trace_FES.
use crate::common::*;
use des_cqueue::{CQueue, EventHandle};
use serde_json::{json, Value};
use std::cell::RefCell;
use std::io::Write;
use std::panic::{catch_unwind, AssertUnwindSafe};
use std::rc::Rc;
use std::time::Duration;

pub type Counters = Rc<RefCell<Vec<u32>>>;

thread_local! {
    /// while set, destructors of `DPanic` payloads panic (after counting)
    static ARMED: std::cell::Cell<bool> = const { std::cell::Cell::new(false) };
}

/// A payload whose destructor panics while ARMED: exactly-once drop must survive unwinding destructors.
pub struct DPanic {
    id: u32,
    ctr: Counters,
}
impl Pay for DPanic {
    const COUNTS: bool = true;
    const PANICS: bool = true;
    const NAME: &'static str = "DPanic";
    fn make(id: u32, ctr: &Counters) -> Self {
        Self { id, ctr: ctr.clone() }
    }
    fn id(&self) -> u32 {
        self.id
    }
    fn intact(&self) -> bool {
        true
    }
}
impl Drop for DPanic {
    fn drop(&mut self) {
        {
            let mut c = self.ctr.borrow_mut();
            let i = self.id as usize;
            if c.len() <= i {
                c.resize(i + 1, 0);
            }
            c[i] += 1;
        }
        if ARMED.with(std::cell::Cell::get) && !std::thread::panicking() {
            panic!("payload destructor panics");
        }
    }
}

pub trait Pay: Sized + 'static {
    const COUNTS: bool;
    const PANICS: bool = false;
    const NAME: &'static str;
    fn make(id: u32, ctr: &Counters) -> Self;
    fn id(&self) -> u32;
    fn intact(&self) -> bool;
}

fn pat(id: u32, i: usize) -> u8 {
    (id as usize).wrapping_mul(31).wrapping_add(i.wrapping_mul(7)).wrapping_add(0x5a) as u8
}

macro_rules! pay_drop {
    ($name:ident, $n:expr, $align:expr) => {
        #[repr(C, align($align))]
        pub struct $name {
            id: u32,
            ctr: Counters,
            bytes: [u8; $n],
        }
        impl Pay for $name {
            const COUNTS: bool = true;
            const NAME: &'static str = stringify!($name);
            fn make(id: u32, ctr: &Counters) -> Self {
                let mut bytes = [0u8; $n];
                for (i, b) in bytes.iter_mut().enumerate() {
                    *b = pat(id, i);
                }
                Self { id, ctr: ctr.clone(), bytes }
            }
            fn id(&self) -> u32 {
                self.id
            }
            fn intact(&self) -> bool {
                self.bytes.iter().enumerate().all(|(i, b)| *b == pat(self.id, i))
            }
        }
        impl Drop for $name {
            fn drop(&mut self) {
                let mut c = self.ctr.borrow_mut();
                let i = self.id as usize;
                if c.len() <= i {
                    c.resize(i + 1, 0);
                }
                c[i] += 1;
            }
        }
    };
}

macro_rules! pay_plain {
    ($name:ident, $idty:ty, $n:expr, $align:expr) => {
        #[repr(C, align($align))]
        pub struct $name {
            id: $idty,
            bytes: [u8; $n],
        }
        impl Pay for $name {
            const COUNTS: bool = false;
            const NAME: &'static str = stringify!($name);
            fn make(id: u32, _ctr: &Counters) -> Self {
                let mut bytes = [0u8; $n];
                for (i, b) in bytes.iter_mut().enumerate() {
                    *b = pat(id, i);
                }
                Self { id: id as $idty, bytes }
            }
            fn id(&self) -> u32 {
                self.id as u32
            }
            fn intact(&self) -> bool {
                self.bytes.iter().enumerate().all(|(i, b)| *b == pat(self.id as u32, i))
            }
        }
    };
}

pay_plain!(P1, u8, 0, 1); // 1 byte, align 1
pay_plain!(P6a2, u16, 3, 2); // 6 bytes, align 2
pay_plain!(P24a4, u32, 20, 4);
pay_plain!(P1024a16, u32, 1000, 16);
pay_drop!(D16a8, 0, 8);
pay_drop!(D100a8, 84, 8);
pay_drop!(D208a16, 190, 16);
pay_drop!(D2040a8, 2020, 8);

pub const N_PAY: usize = 9;

#[derive(Clone, Debug)]
pub enum Op {
    Add { t: u64, ok: bool, id: u32, len: usize, time: u64 },
    Fetch { id: u32, t: u64, len: usize, time: u64 },
    Cancel { id: u32, len: usize, time: u64 },
    DropAll { dropped: Vec<u32> },
}

pub fn parse_behaviour(v: &Value) -> Vec<Op> {
    let mut ops = Vec::new();
    for r in v.as_array().expect("behaviour must be an array") {
        let u = |k: &str| r[k].as_u64().unwrap_or(0);
        match r["op"].as_str().unwrap_or("") {
            "add" => ops.push(Op::Add {
                t: u("t"),
                ok: r["res"] == "ok",
                id: u("id") as u32,
                len: u("len") as usize,
                time: u("time"),
            }),
            "fetch" => ops.push(Op::Fetch { id: u("id") as u32, t: u("t"), len: u("len") as usize, time: u("time") }),
            "cancel" => ops.push(Op::Cancel { id: u("id") as u32, len: u("len") as usize, time: u("time") }),
            "dropall" => ops.push(Op::DropAll {
                dropped: r["dropped"].as_array().map(|a| a.iter().map(|x| x.as_u64().unwrap() as u32).collect()).unwrap_or_default(),
            }),
            other => panic!("unknown op {other}"),
        }
    }
    ops
}

pub use crate::emb::{Emb, EMB_KINDS};

pub struct Cfg {
    pub n: usize,
    pub w: Duration,
    pub emb: Emb,
    pub pay: usize,
}

impl Cfg {
    fn describe(&self) -> Value {
        json!({"n": self.n, "w_ns": self.w.as_nanos() as u64, "emb": self.emb.kind, "pay": self.pay})
    }
}

fn fail(step: usize, field: &str, exp: impl std::fmt::Debug, got: impl std::fmt::Debug) -> Value {
    json!({"step": step, "field": field, "expected": format!("{exp:?}"), "got": format!("{got:?}")})
}

/// Execute one behaviour against a fresh CQueue<P>; returns number of comparisons made.
fn replay_one<P: Pay>(ops: &[Op], cfg: &Cfg) -> Result<u64, Value> {
    let ctr: Counters = Rc::new(RefCell::new(vec![0u32; 64]));
    let count = |id: u32| -> u32 { ctr.borrow().get(id as usize).copied().unwrap_or(0) };
    let mut q: Option<CQueue<P>> = Some(CQueue::new(cfg.n, cfg.w));
    let mut handles: Vec<Option<EventHandle<P>>> = Vec::new();
    let mut all_ids: Vec<u32> = Vec::new();
    let mut checks = 0u64;
    let emb = &cfg.emb;

    for (i, op) in ops.iter().enumerate() {
        match op {
            Op::Add { t, ok, id, len, time } => {
                let qq = q.as_mut().unwrap();
                let pid = if *ok { *id } else { 9999 };
                let p = P::make(pid, &ctr);
                let r = catch_unwind(AssertUnwindSafe(|| qq.add(emb.map(*t), p)));
                match (r, ok) {
                    (Ok(h), true) => {
                        handles.resize_with(*id as usize + 1, || None);
                        handles[*id as usize] = Some(h);
                        all_ids.push(*id);
                    }
                    (Err(_), false) => {}
                    (Ok(_), false) => return Err(fail(i, "add accepted a past timestamp", "panic", "ok")),
                    (Err(_), true) => return Err(fail(i, "add panicked", "ok", "panic")),
                }
                if qq.len() != *len {
                    return Err(fail(i, "len", len, qq.len()));
                }
                if qq.is_empty() != (*len == 0) {
                    return Err(fail(i, "is_empty", *len == 0, qq.is_empty()));
                }
                if qq.time() != emb.map(*time) {
                    return Err(fail(i, "time", emb.map(*time), qq.time()));
                }
                if qq.len_zero() + qq.len_nonzero() != *len {
                    return Err(fail(i, "len_zero + len_nonzero", len, qq.len_zero() + qq.len_nonzero()));
                }
                if qq.peek_time().is_some() != (*len > 0) {
                    return Err(fail(i, "peek_time is Some iff the queue is not empty", *len > 0, qq.peek_time().is_some()));
                }
                checks += 6;
            }
            Op::Fetch { id, t, len, time } => {
                let qq = q.as_mut().unwrap();
                // the timestamp fetch_next is about to return, without changing anything
                let before = (qq.len(), qq.time());
                let peek = catch_unwind(AssertUnwindSafe(|| qq.peek_time()));
                let Ok(peek) = peek else { return Err(fail(i, "peek_time panicked", "value", "panic")) };
                if peek != Some(emb.map(*t)) {
                    return Err(fail(i, "peek_time before fetch_next", emb.map(*t), peek));
                }
                if (qq.len(), qq.time()) != before {
                    return Err(fail(i, "peek_time changed len / time", before, (qq.len(), qq.time())));
                }
                let r = catch_unwind(AssertUnwindSafe(|| qq.fetch_next()));
                let Ok((p, d)) = r else { return Err(fail(i, "fetch_next panicked", "value", "panic")) };
                if p.id() != *id {
                    return Err(fail(i, "fetched id", id, p.id()));
                }
                if d != emb.map(*t) {
                    return Err(fail(i, "fetched timestamp", emb.map(*t), d));
                }
                if !p.intact() {
                    return Err(fail(i, "payload bytes", "intact", "corrupted"));
                }
                if P::COUNTS && count(*id) != 0 {
                    return Err(fail(i, "payload dropped inside queue before return", 0, count(*id)));
                }
                drop(p);
                if qq.len() != *len {
                    return Err(fail(i, "len", len, qq.len()));
                }
                if qq.time() != emb.map(*time) {
                    return Err(fail(i, "time", emb.map(*time), qq.time()));
                }
                checks += 6;
            }
            Op::Cancel { id, len, time } => {
                let qq = q.as_mut().unwrap();
                let before = qq.len();
                let h = handles[*id as usize].take().expect("behaviour cancels a handle twice");
                if P::PANICS {
                    ARMED.with(|a| a.set(true));
                }
                let r = catch_unwind(AssertUnwindSafe(|| qq.cancel(h)));
                ARMED.with(|a| a.set(false));
                if P::PANICS && before != *len {
                    // the cancelled payload's destructor unwinds out of cancel: the payload must have been
                    // destroyed exactly once, now and never again (checked at the queue drop); counters of
                    // the queue are not compared after an unwinding destructor
                    if r.is_ok() {
                        return Err(fail(i, "destructor of the cancelled payload did not run inside cancel", "panic", "ok"));
                    }
                    if count(*id) != 1 {
                        return Err(fail(i, "drop count of cancelled payload (unwinding destructor)", 1, count(*id)));
                    }
                    checks += 1;
                    // skip to the queue drop
                    if let Some(Op::DropAll { .. }) = ops.last() {
                        let pending_now: Vec<u32> = all_ids.iter().copied().filter(|x| count(*x) == 0).collect();
                        let qq = q.take().unwrap();
                        if catch_unwind(AssertUnwindSafe(|| drop(qq))).is_err() {
                            return Err(fail(i, "drop of the queue panicked", "ok", "panic"));
                        }
                        for x in &all_ids {
                            if count(*x) != 1 {
                                return Err(fail(i, "final drop count after an unwinding destructor", 1, (x, count(*x), &pending_now)));
                            }
                            checks += 1;
                        }
                    }
                    return Ok(checks);
                }
                if r.is_err() {
                    return Err(fail(i, "cancel panicked", "ok", "panic"));
                }
                if qq.len() != *len {
                    return Err(fail(i, "len after cancel", len, qq.len()));
                }
                if qq.time() != emb.map(*time) {
                    return Err(fail(i, "time", emb.map(*time), qq.time()));
                }
                if P::COUNTS {
                    // a cancelled pending payload is dropped now; a no-op cancel drops nothing
                    let removed = before != *len;
                    let c = count(*id);
                    if removed && c != 1 {
                        return Err(fail(i, "drop count of cancelled payload", 1, c));
                    }
                }
                checks += 3;
            }
            Op::DropAll { dropped } => {
                let before: Vec<u32> = all_ids.iter().map(|id| count(*id)).collect();
                let qq = q.take().unwrap();
                let r = catch_unwind(AssertUnwindSafe(|| drop(qq)));
                if r.is_err() {
                    return Err(fail(i, "drop of the queue panicked", "ok", "panic"));
                }
                if P::COUNTS {
                    for (k, id) in all_ids.iter().enumerate() {
                        let c = count(*id);
                        let exp_now = dropped.contains(id);
                        if exp_now && !(before[k] == 0 && c == 1) {
                            return Err(fail(i, "payload pending at queue drop must be dropped exactly once", (0, 1), (before[k], c)));
                        }
                        if c != 1 {
                            return Err(fail(i, "final drop count", 1, c));
                        }
                        checks += 1;
                    }
                }
            }
        }
    }
    Ok(checks)
}

pub fn replay_dispatch(ops: &[Op], cfg: &Cfg) -> Result<u64, Value> {
    match cfg.pay % N_PAY {
        0 => replay_one::<P1>(ops, cfg),
        1 => replay_one::<D16a8>(ops, cfg),
        2 => replay_one::<P6a2>(ops, cfg),
        3 => replay_one::<D100a8>(ops, cfg),
        4 => replay_one::<P24a4>(ops, cfg),
        5 => replay_one::<D208a16>(ops, cfg),
        6 => replay_one::<P1024a16>(ops, cfg),
        7 => replay_one::<D2040a8>(ops, cfg),
        _ => replay_one::<DPanic>(ops, cfg),
    }
}

pub fn grid(tier: &str, max_tick: u64) -> Vec<Cfg> {
    let ns: &[usize] = if tier == "thorough" { &[1, 2, 3, 4, 7, 10, 32, 1028] } else { &[1, 2, 3, 7, 1028] };
    let ws: &[u64] = if tier == "thorough" { &[1, 1_000, 2_500_000, 1_000_000_000, 3_000_000_000] } else { &[1, 1_000, 2_500_000] };
    let mut out = Vec::new();
    let mut k = 0usize;
    for &n in ns {
        for &w in ws {
            for kind in EMB_KINDS {
                // a 1028-bucket queue is expensive to build: only two embeddings for it in quick
                if tier != "thorough" && n == 1028 && !(kind == "w" || kind == "rand") {
                    continue;
                }
                if w == 1 && (kind == "wm1" || kind == "halfw") {
                    continue; // coincide with "w"/"ns" for 1ns buckets
                }
                let wd = Duration::from_nanos(w);
                out.push(Cfg { n, w: wd, emb: Emb::new(kind, n, wd, max_tick, (n as u64) << 32 | w), pay: k });
                k += 1;
            }
        }
    }
    // far-future timestamps (beyond 2^64 ns) with buckets wide enough for the bucket-by-bucket scan to get there
    for (n, wsecs) in [(1usize, 1u64 << 32), (4, 1 << 32), (3, 1 << 30), (7, 1 << 30), (4, 1 << 31)] {
        let wh = Duration::from_secs(wsecs);
        out.push(Cfg { n, w: wh, emb: Emb::new("huge", n, wh, max_tick, 11), pay: k });
        k += 1;
    }
    // (2^64 ns / w) mod n lies in (0, 1) for the first three: a bucket index computed in 64 bits would be off by one bucket for some times only
    for (n, wsecs) in [(2usize, 1_000_000_000u64), (4, 1 << 32), (17, 1 << 30), (3, 1 << 30), (5, 1 << 28)] {
        let wh = Duration::from_secs(wsecs);
        out.push(Cfg { n, w: wh, emb: Emb::new("huge2", n, wh, max_tick, 11), pay: k });
        k += 1;
    }
    out
}

fn nontrivial(ops: &[Op]) -> bool {
    // (a) a tie between two adds, (b) an add at the current time, (c) a cancel that removes an
    // event whose time equals the current time
    let mut times: Vec<(u32, u64)> = Vec::new();
    let mut tie = false;
    let mut at_cur = false;
    let mut cancel_cur = false;
    let mut prev_len = 0usize;
    for op in ops {
        match op {
            Op::Add { t, ok: true, id, len, time } => {
                if times.iter().any(|(_, x)| x == t) {
                    tie = true;
                }
                if t == time {
                    at_cur = true;
                }
                times.push((*id, *t));
                prev_len = *len;
            }
            Op::Add { len, .. } => prev_len = *len,
            Op::Fetch { len, .. } => prev_len = *len,
            Op::Cancel { id, len, time } => {
                if *len < prev_len && times.iter().any(|(i, t)| i == id && t == time) {
                    cancel_cur = true;
                }
                prev_len = *len;
            }
            Op::DropAll { .. } => {}
        }
    }
    tie || at_cur || cancel_cur
}

pub fn replay(args: &[String]) {
    let path = &args[0];
    let tier = arg_value(args, "--tier").unwrap_or_else(|| "quick".into());
    let mut max_tick = arg_u64(args, "--max-tick", 5);
    // the embeddings are tables over ticks: cover every time that occurs in the file
    for_each_line(path, |_, v| {
        watchdog::tick();
        if let Some(ops) = v.as_array() {
            for e in ops {
                for k in ["t", "time"] {
                    if let Some(t) = e[k].as_u64() {
                        max_tick = max_tick.max(t + 1);
                    }
                }
            }
        }
    });
    let stride = arg_u64(args, "--cfg-stride", 1) as usize; // replay each behaviour under every stride-th config
    let cfgs = grid(&tier, max_tick);
    let mut s = Summary::default();
    s.extra.insert("configs".into(), json!(cfgs.len()));
    for_each_line(path, |li, v| {
        let ops = parse_behaviour(&v);
        s.behaviours += 1;
        if nontrivial(&ops) {
            s.nontrivial += 1;
        }
        if li < 2 {
            s.sample(v.clone());
        }
        for (ci, cfg) in cfgs.iter().enumerate() {
            if stride > 1 && (ci + li) % stride != 0 {
                continue;
            }
            // queues with many buckets are expensive to construct: sample them
            if cfg.n >= 32 && (ci + li) % 61 != 0 {
                continue;
            }
            s.replays += 1;
            watchdog::enter(|| json!({"behaviour": v, "cfg": cfg.describe()}).to_string());
            match replay_dispatch(&ops, cfg) {
                Ok(c) => s.checks += c,
                Err(mut m) => {
                    m["cfg"] = cfg.describe();
                    m["behaviour"] = v.clone();
                    s.mismatch(m);
                }
            }
        }
    });
    s.print();
}

// ------------------------------------------------------------------ direction V

fn record_run<P: Pay>(rng: &mut Rng, cfg: &Cfg, nops: usize, out: &mut impl Write, max_tick: u64) -> Result<(), String> {
    let ctr: Counters = Rc::new(RefCell::new(vec![0u32; 64]));
    let mut q: CQueue<P> = CQueue::new(cfg.n, cfg.w);
    let emb = &cfg.emb;
    let inv = |d: Duration| -> i64 { emb.inv(d).map(|x| x as i64).unwrap_or(-1) };
    writeln!(out, "{}", json!({"op": "reset", "cfg": cfg.describe()})).unwrap();
    let mut handles: Vec<(u32, EventHandle<P>)> = Vec::new();
    let mut nid = 0u32;
    let mut cur: u64 = 0;
    let mut live: Vec<u32> = Vec::new();
    let mut oplog: Vec<Value> = Vec::new();
    // every fourth history contains floods: 66..105 events scheduled for the current instant in one go (more than any
    // fixed-size fast path for same-instant events can hold), followed by ordinary operations
    let flood = rng.chance(1, 4);
    let mut burst_left = 0u64;
    // a history with floods ends by fetching everything that is left (the order of a flood only shows when it is drained)
    for step in 0..(nops + if flood { 400 } else { 0 }) {
        watchdog::enter(|| json!({"recorded_history_so_far": oplog, "cfg": cfg.describe()}).to_string());
        let mut choice = rng.below(100);
        if step >= nops {
            if q.is_empty() {
                break;
            }
            burst_left = 0;
            choice = 60;
        }
        if flood && step < nops && burst_left == 0 && (nid as usize) < 130 && rng.chance(1, 12) {
            burst_left = 66 + rng.below(40);
        }
        let in_burst = burst_left > 0 && (nid as usize) < 250;
        if in_burst {
            burst_left -= 1;
            choice = 0;
        }
        if choice < 45 && (nid as usize) < 250 {
            // add: adaptive deltas (ties with cur, ties with each other, neighbours, far)
            let delta = if in_burst { 0 } else { match rng.below(10) {
                0 | 1 | 2 => 0,
                3 | 4 => 1,
                5 => 2,
                6 => rng.below(6),
                7 => rng.below(40),
                8 => 3,
                _ => rng.below(12),
            } };
            let past = !in_burst && cur > 0 && rng.chance(1, 15);
            let t = if past { cur - 1 - rng.below(cur.min(3)) } else { (cur + delta).min(max_tick) };
            let p = P::make(if past { 9999 } else { nid }, &ctr);
            let r = catch_unwind(AssertUnwindSafe(|| q.add(emb.map(t), p)));
            match r {
                Ok(h) => {
                    { let j = json!({"op":"add","t":t,"res":"ok","id":nid,"len":q.len(),"time":inv(q.time())}); writeln!(out, "{}", j).unwrap(); oplog.push(j); }
                    handles.push((nid, h));
                    live.push(nid);
                    nid += 1;
                }
                Err(_) => {
                    { let j = json!({"op":"add","t":t,"res":"panic","id":0,"len":q.len(),"time":inv(q.time())}); writeln!(out, "{}", j).unwrap(); oplog.push(j); }
                }
            }
        } else if choice < 80 {
            if q.is_empty() {
                continue;
            }
            let r = catch_unwind(AssertUnwindSafe(|| q.fetch_next()));
            match r {
                Ok((p, d)) => {
                    let id = p.id();
                    let ok = p.intact() && (!P::COUNTS || ctr.borrow().get(id as usize).copied().unwrap_or(0) == 0);
                    drop(p);
                    let t = inv(d);
                    if t >= 0 {
                        cur = t as u64;
                    }
                    // a corrupted / prematurely dropped payload is logged as id -1 so that TLC rejects the line
                    { let j = json!({"op":"fetch","id": if ok { id as i64 } else { -1 },"t":t,"len":q.len(),"time":inv(q.time())}); writeln!(out, "{}", j).unwrap(); oplog.push(j); }
                    live.retain(|x| *x != id);
                }
                Err(_) => return Err("fetch_next panicked".into()),
            }
        } else if !handles.is_empty() {
            let k = rng.below(handles.len() as u64) as usize;
            let (id, h) = handles.swap_remove(k);
            let r = catch_unwind(AssertUnwindSafe(|| q.cancel(h)));
            if r.is_err() {
                return Err("cancel panicked".into());
            }
            live.retain(|x| *x != id);
            { let j = json!({"op":"cancel","id":id,"len":q.len(),"time":inv(q.time())}); writeln!(out, "{}", j).unwrap(); oplog.push(j); }
        }
    }
    // drop the queue: which payloads does it drop?
    let before: Vec<u32> = (0..nid).map(|i| ctr.borrow().get(i as usize).copied().unwrap_or(0)).collect();
    drop(q);
    let mut dropped = Vec::new();
    if P::COUNTS {
        for i in 0..nid {
            let c = ctr.borrow().get(i as usize).copied().unwrap_or(0);
            if c == before[i as usize] + 1 && before[i as usize] == 0 {
                dropped.push(i);
            } else if c != 1 {
                dropped.push(1000 + i); // impossible id: forces a rejection (never dropped / dropped twice)
            }
        }
    } else {
        dropped = live.clone();
        dropped.sort_unstable();
    }
    writeln!(out, "{}", json!({"op":"dropall","dropped":dropped})).unwrap();
    Ok(())
}

pub fn record(args: &[String]) {
    let seed = arg_u64(args, "--seed", 1);
    let runs = arg_u64(args, "--runs", 50);
    let nops = arg_u64(args, "--ops", 200) as usize;
    let outp = arg_value(args, "--out").expect("--out");
    let max_tick = 4000u64;
    let mut rng = Rng(seed.wrapping_mul(0x2545_F491_4F6C_DD1D) ^ 0xfe5);
    let mut out = std::io::BufWriter::new(std::fs::File::create(&outp).unwrap());
    let ns = [1usize, 2, 3, 4, 7, 10, 32, 64];
    let ws = [1u64, 7, 1_000, 2_500_000, 1_000_000_000];
    let mut s = Summary::default();
    for r in 0..runs {
        let n = *rng.pick(&ns);
        let w = Duration::from_nanos(*rng.pick(&ws));
        let kind = EMB_KINDS[rng.below(6) as usize]; // "far" excluded: max_tick is large here
        let cfg = Cfg { n, w, emb: Emb::new(kind, n, w, max_tick, seed ^ r), pay: rng.below(8) as usize };
        let res = match cfg.pay {
            0 => record_run::<P1>(&mut rng, &cfg, nops, &mut out, max_tick),
            1 => record_run::<D16a8>(&mut rng, &cfg, nops, &mut out, max_tick),
            2 => record_run::<P6a2>(&mut rng, &cfg, nops, &mut out, max_tick),
            3 => record_run::<D100a8>(&mut rng, &cfg, nops, &mut out, max_tick),
            4 => record_run::<P24a4>(&mut rng, &cfg, nops, &mut out, max_tick),
            5 => record_run::<D208a16>(&mut rng, &cfg, nops, &mut out, max_tick),
            6 => record_run::<P1024a16>(&mut rng, &cfg, nops, &mut out, max_tick),
            _ => record_run::<D2040a8>(&mut rng, &cfg, nops, &mut out, max_tick),
        };
        s.behaviours += 1;
        if let Err(e) = res {
            s.mismatch(json!({"run": r, "error": e, "cfg": cfg.describe()}));
        }
    }
    out.flush().unwrap();
    s.print();
}
