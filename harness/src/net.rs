//! Suite `net`: scripted des::net simulations against the reference interpreter Net.tla.
//! Serves C03 (emission order), C07, C09, C12 (start/end order), C13, C14; C20 (drop counters) and
//! C04 (repeatability) ride on the same scenarios.
use crate::common::*;
use des::net::channel::{Channel, ChannelDropBehaviour, ChannelMetrics};
use des::net::module::Module;
use des::net::processing::{ProcessingElement, ProcessingStack};
use des::net::PanicError;
use des::prelude::*;
use serde_json::{json, Value};
use std::cell::RefCell;
use std::collections::BTreeSet;
use std::panic::{catch_unwind, AssertUnwindSafe};
use std::time::Duration;

thread_local! {
    static LOG: RefCell<Vec<Value>> = const { RefCell::new(Vec::new()) };
    static NEXT_MSG: RefCell<u16> = const { RefCell::new(1) };
    static TICK: RefCell<Duration> = const { RefCell::new(Duration::from_millis(1)) };
    /// upper bound (exclusive) of the sub-tick offset a jittering channel may add to an arrival time
    static JITTER_NS: RefCell<u128> = const { RefCell::new(0) };
    static BYTES: RefCell<Vec<usize>> = const { RefCell::new(Vec::new()) };
    /// live-object accounting for C20: +1 on creation, -1 on drop, per class
    static LIVE: RefCell<[i64; 3]> = const { RefCell::new([0; 3]) };   // modules, elements, message bodies
    static DROPPED_TWICE: RefCell<u64> = const { RefCell::new(0) };
    /// side channel (not part of the compared log): (module, incarnation, log length) at every scripted panic
    static PANICS: RefCell<Vec<(String, u32, usize)>> = const { RefCell::new(Vec::new()) };
    /// what the channel probes saw: one entry per transmission start
    static TXLOG: RefCell<Vec<Value>> = const { RefCell::new(Vec::new()) };
}

/// ChannelProbe that records every transmission start of channel `.0`
struct TxProbe(u64);
impl des::net::channel::ChannelProbe for TxProbe {
    fn on_message_transmit(&mut self, _: &ChannelMetrics, msg: &Message) {
        let e = json!({"o": "tx", "ch": self.0, "id": msg.header().id, "t": now_ticks()});
        TXLOG.with(|l| l.borrow_mut().push(e));
    }
}

/// module a reports the public state of its outgoing channel at the start of every callback
fn log_channel_state(name: &str) {
    if name != "a" {
        return;
    }
    if let Some(ch) = current().gate("out", 0).and_then(|g| g.channel()) {
        let until = ch.transmission_finish_time();
        let t = TICK.with(|t| *t.borrow());
        log(json!({"o": "ch", "m": "a", "busy": ch.is_busy(), "until": (until.as_nanos() / t.as_nanos()) as u64}));
        // half of the time the probe is attached again during the run - whatever the channel is doing right now (transmitting,
        // holding queued messages): replacing the probe touches nothing else of the channel
        if NEXT_MSG.with(|n| *n.borrow()) % 2 == 1 {
            ch.attach_probe(TxProbe(1));
        }
    }
}

fn tick() -> Duration {
    TICK.with(|t| *t.borrow())
}
fn now_ticks() -> i64 {
    let n = SimTime::now();
    let t = tick().as_nanos();
    let slack = JITTER_NS.with(|j| *j.borrow());
    // jitter is drawn from [0, jitter): with jitter << tick an arrival stays inside its tick
    if n.as_nanos() % t == 0 || n.as_nanos() % t < slack { (n.as_nanos() / t) as i64 } else { -1 }
}
fn log(v: Value) {
    LOG.with(|l| l.borrow_mut().push(v));
}

/// counts creations and drops of one class of objects
struct Life(usize, bool);
impl Life {
    fn new(class: usize) -> Self {
        LIVE.with(|l| l.borrow_mut()[class] += 1);
        Life(class, false)
    }
}
impl Clone for Life {
    fn clone(&self) -> Self {
        Life::new(self.0)
    }
}
impl std::fmt::Debug for Life {
    fn fmt(&self, f: &mut std::fmt::Formatter<'_>) -> std::fmt::Result {
        write!(f, "Life")
    }
}
impl Drop for Life {
    fn drop(&mut self) {
        if self.1 {
            DROPPED_TWICE.with(|d| *d.borrow_mut() += 1);
        }
        self.1 = true;
        LIVE.with(|l| l.borrow_mut()[self.0] -= 1);
    }
}

#[derive(Debug, Clone)]
struct Payload {
    bytes: usize,
    _life: Life,
}
impl MessageBody for Payload {
    fn byte_len(&self) -> usize {
        self.bytes
    }
}

#[derive(Debug)]
struct EndFailure(String);
impl std::fmt::Display for EndFailure {
    fn fmt(&self, f: &mut std::fmt::Formatter<'_>) -> std::fmt::Result {
        write!(f, "at_sim_end of {} failed", self.0)
    }
}
impl std::error::Error for EndFailure {}

/// zero-sized message body with a destructor (header-only messages carry it)
#[derive(Debug)]
struct Token;
impl Token {
    fn new() -> Self {
        LIVE.with(|l| l.borrow_mut()[2] += 1);
        Token
    }
}
impl Clone for Token {
    fn clone(&self) -> Self {
        Token::new()
    }
}
impl Drop for Token {
    fn drop(&mut self) {
        LIVE.with(|l| l.borrow_mut()[2] -= 1);
    }
}
impl MessageBody for Token {
    fn byte_len(&self) -> usize {
        0
    }
}

struct Scripted {
    end_emit: bool,
    end_fail: bool,
    name: String,
    stages: usize,
    stack: usize,
    scripts: Vec<Value>,
    k: usize,
    inc: u32,
    _life: Life,
}

/// the next message (ids in creation order): size index into the byte table, tag = element that consumes it / 10 = echo
fn new_message(size: u64, eat: u64) -> Message {
    let id = NEXT_MSG.with(|n| {
        let mut n = n.borrow_mut();
        let v = *n;
        *n += 1;
        v
    });
    let bytes = BYTES.with(|b| b.borrow()[size as usize]) - 64;
    if bytes == 0 && id % 2 == 0 {
        return Message::default().id(id).kind(eat as u16).with_content(Token::new());
    }
    if id % 3 == 0 {
        // the non-clonable way of storing a body must measure the same length
        let mut m = Message::default().id(id).kind(eat as u16);
        m.set_content_non_clonable(Payload { bytes, _life: Life::new(2) });
        return m;
    }
    Message::default().id(id).kind(eat as u16).with_content(Payload { bytes, _life: Life::new(2) })
}

/// an element that lets a message pass leaves its mark in the header; the handler reports how many marks it saw
fn mark(mut msg: Message, i: usize) -> Message {
    if i < 6 {
        msg.header_mut().src[i] = (i + 1) as u8;
    }
    msg
}

impl Scripted {
    fn run_script(&mut self) {
        let cmds = self.scripts.get(self.k).cloned().unwrap_or(json!([]));
        self.k += 1;
        for c in cmds.as_array().unwrap() {
            let d = tick() * c["d"].as_u64().unwrap_or(0) as u32;
            let mk = new_message;
            if c["g"] == "at" {
                late_wire();
            }
            match c["c"].as_str().unwrap() {
                // every module but a uses the other spellings of the same calls: absolute times (send_at / schedule_at /
                // shutdow_and_restart_at) and a gate given as (name, index) resp. as GateRef
                "send" => {
                    let m = mk(c["size"].as_u64().unwrap(), c["eat"].as_u64().unwrap());
                    let g = gate_name(c["g"].as_str().unwrap());
                    if self.name == "a" {
                        send(m, g)
                    } else if self.k % 2 == 0 {
                        send(m, (g, 0))
                    } else {
                        send_at(m, current().gate(g, 0).expect("gate exists"), SimTime::now())
                    }
                }
                "sendin" => {
                    let m = mk(c["size"].as_u64().unwrap(), c["eat"].as_u64().unwrap());
                    let g = gate_name(c["g"].as_str().unwrap());
                    if self.name == "a" {
                        send_in(m, g, d)
                    } else {
                        send_at(m, (g, 0), SimTime::now() + d)
                    }
                }
                "sched" => {
                    let m = mk(1, c["eat"].as_u64().unwrap());
                    if self.name == "a" {
                        schedule_in(m, d)
                    } else {
                        schedule_at(m, SimTime::now() + d)
                    }
                }
                "setcatch" => {
                    let me = current();
                    let mut st = me.stereotyp();
                    st.on_panic_catch = c["d"].as_u64() == Some(1);
                    me.set_stereotyp(st);
                }
                "shutdown" => current().shutdown(),
                "restart" => {
                    if self.name == "a" {
                        current().shutdow_and_restart_in(d)
                    } else {
                        current().shutdow_and_restart_at(SimTime::now() + d)
                    }
                }
                "panic" => {
                    let at = LOG.with(|l| l.borrow().len());
                    PANICS.with(|p| p.borrow_mut().push((self.name.clone(), self.inc, at)));
                    // three ways for a callback to panic: explicitly, or by asking for something in the past (the API
                    // must refuse that inside the callback, where the panic is contained and attributed)
                    let now = SimTime::now();
                    if now > SimTime::ZERO && self.k % 3 == 1 {
                        schedule_at(Message::default().id(9998), now - tick());
                        unreachable!("schedule_at accepted a time in the past")
                    } else if now > SimTime::ZERO && self.k % 3 == 2 && self.name != "c" {
                        send_at(Message::default().id(9998), "out", now - tick());
                        unreachable!("send_at accepted a time in the past")
                    }
                    panic!("scripted panic")
                }
                other => panic!("unknown command {other}"),
            }
        }
    }
}

/// wiring during the run: the new link gets a channel made from the template that a.out carries; whatever that channel is
/// doing right now, the new one starts idle, with the same metrics
fn late_wire() {
    if let Some((ct, fresh)) = LATE_CT.with(|c| c.borrow_mut().take()) {
        let me = current();
        let o2 = me.gate("o2", 0).expect("gate o2 exists");
        if NEXT_MSG.with(|n| *n.borrow()) % 2 == 0 {
            // connect called on the far gate with a channel of its own: the direction towards the receiver of the call
            // (a.o2 -> c.t) carries the very channel that was handed in
            ct.connect(o2.clone(), fresh);
        } else {
            let template = me.gate("out", 0).and_then(|g| g.channel()).expect("a.out carries a channel");
            o2.clone().connect(ct, Some(template));
        }
        let ch = o2.channel().expect("the new link carries a channel");
        WEAK_CHANS.with(|w| w.borrow_mut().push(std::sync::Arc::downgrade(&ch)));
        ch.attach_probe(TxProbe(2));
    }
}

fn gate_name(g: &str) -> &'static str {
    match g {
        "ao" => "out",
        "bo" => "out",
        "at" => "o2",
        "bi" => "in",       // the reverse direction of the a.out -- b.in connection
        _ => "?",
    }
}

impl Module for Scripted {
    fn stack(&self, mut stack: ProcessingStack) -> ProcessingStack {
        // the first element comes from the simulation-wide default stack (SimBuilder::set_stack),
        // further ones are appended by the module itself
        let pe = |i: usize| Pe { m: self.name.clone(), i, _life: Life::new(1) };
        match self.stack {
            0 => return ProcessingStack::default(),
            1 => {}
            2 => stack.append(pe(1)),
            // a stack larger than the default one, appended in a single call
            3 => stack.append((pe(1), pe(2))),
            n => {
                for i in 1..n {
                    stack.append(pe(i));
                }
            }
        }
        stack
    }
    fn num_sim_start_stages(&self) -> usize {
        self.stages
    }
    fn at_sim_start(&mut self, stage: usize) {
        log(json!({"o": "start", "m": self.name, "stage": stage, "t": now_ticks(), "inc": self.inc}));
        log_channel_state(&self.name);
        self.run_script();
    }
    fn handle_message(&mut self, msg: Message) {
        let mods = msg.header().src.iter().enumerate().filter(|(i, b)| **b == (*i + 1) as u8).count();
        log(json!({"o": "msg", "m": self.name, "id": msg.header().id, "t": now_ticks(), "inc": self.inc, "mods": mods}));
        drop(msg);
        log_channel_state(&self.name);
        self.run_script();
    }
    fn reset(&mut self) {
        log(json!({"o": "reset", "m": self.name, "t": now_ticks()}));
        self.inc += 1;
    }
    fn at_sim_end(&mut self) -> Result<(), RuntimeError> {
        log(json!({"o": "end", "m": self.name}));
        if self.end_emit {
            // messages emitted during tear-down are never processed; they must still be released with the simulation
            schedule_in(Message::default().id(9000).with_content(Payload { bytes: 1, _life: Life::new(2) }), tick());
            if self.name == "a" {
                send(Message::default().id(9001).with_content(Payload { bytes: 1, _life: Life::new(2) }), "out");
            }
        }
        if self.end_fail {
            return Err(RuntimeError::from(EndFailure(self.name.clone())));
        }
        Ok(())
    }
}

struct Pe {
    m: String,
    i: usize,
    _life: Life,
}
impl ProcessingElement for Pe {
    fn event_start(&mut self) {
        log(json!({"o": "pe", "m": self.m, "i": self.i, "e": "start", "id": -1}));
    }
    fn event_end(&mut self) {
        log(json!({"o": "pe", "m": self.m, "i": self.i, "e": "end", "id": -1}));
    }
    fn incoming(&mut self, msg: Message) -> Option<Message> {
        log(json!({"o": "pe", "m": self.m, "i": self.i, "e": "in", "id": msg.header().id}));
        if msg.header().kind as usize == self.i + 1 {
            None
        } else {
            Some(mark(msg, self.i))
        }
    }
}

/// element 0 of every module comes from the global stack; it learns its module from the context
struct Pe0 {
    _life: Life,
    /// the message of the current event was tagged "echo" (kind 10): one more self-message is due at event_end
    echo: bool,
}
impl ProcessingElement for Pe0 {
    fn event_start(&mut self) {
        self.echo = false;
        log(json!({"o": "pe", "m": current().path().as_str(), "i": 0, "e": "start", "id": -1}));
    }
    fn event_end(&mut self) {
        log(json!({"o": "pe", "m": current().path().as_str(), "i": 0, "e": "end", "id": -1}));
        if std::mem::take(&mut self.echo) {
            schedule_in(new_message(1, 0), tick());
        }
    }
    fn incoming(&mut self, msg: Message) -> Option<Message> {
        log(json!({"o": "pe", "m": current().path().as_str(), "i": 0, "e": "in", "id": msg.header().id}));
        if msg.header().kind == 1 {
            None
        } else {
            if msg.header().kind == 10 {
                // elements may emit messages themselves: one now (before the handler), one when the event ends
                self.echo = true;
                schedule_in(new_message(1, 0), tick());
            }
            Some(mark(msg, 0))
        }
    }
}

pub struct NetCfg {
    pub mods: Vec<String>,
    pub topo: String,
    pub stages: Value,
    pub stack: Value,
    pub catch: Value,
    pub chans: Value, // {"1": {"bitrate":..,"lat":ticks,"policy":"drop"|"queue","limit":-1|bytes}}
    pub tick_ns: u64,
    pub bytes: Vec<usize>, // index by size (1-based; index 0 unused)
    pub max_t: u64,
    pub endfail: Vec<String>,
    pub end_emit: bool,
    /// messages put into the event set from outside before the run
    pub inject: Vec<Value>,
    /// T3 only: a.o2 -> c.t is not wired at build time; module a wires it during the run, right before its first use,
    /// with the live channel of a.out (possibly transmitting at that moment) as the template
    pub late_wire: bool,
}

impl NetCfg {
    pub fn from(v: &Value) -> Self {
        NetCfg {
            mods: v["mods"].as_array().unwrap().iter().map(|m| m.as_str().unwrap().to_string()).collect(),
            topo: v["topo"].as_str().unwrap().to_string(),
            stages: v["stages"].clone(),
            stack: v["stack"].clone(),
            catch: v["catch"].clone(),
            chans: v["chans"].clone(),
            tick_ns: v["tick_ns"].as_u64().unwrap(),
            bytes: std::iter::once(0).chain(v["bytes"].as_array().unwrap().iter().map(|b| b.as_u64().unwrap() as usize)).collect(),
            max_t: v["max_t"].as_u64().unwrap(),
            end_emit: v["end_emit"].as_bool().unwrap_or(false),
            endfail: v["endfail"].as_array().map(|a| a.iter().map(|x| x.as_str().unwrap().to_string()).collect()).unwrap_or_default(),
            inject: v["inject"].as_array().cloned().unwrap_or_default(),
            late_wire: v["late_wire"].as_bool().unwrap_or(false),
        }
    }
}

fn channel(cfg: &NetCfg, id: &str) -> Option<des::net::channel::ChannelRef> {
    let c = &cfg.chans[id];
    if c.is_null() {
        return None;
    }
    let tick = Duration::from_nanos(cfg.tick_ns);
    let policy = match (c["policy"].as_str().unwrap(), c["limit"].as_i64().unwrap()) {
        ("drop", _) => ChannelDropBehaviour::Drop,
        (_, l) if l < 0 => ChannelDropBehaviour::Queue(None),
        (_, l) => ChannelDropBehaviour::Queue(Some(l as usize)),
    };
    let jitter = Duration::from_nanos(c["jitter_ns"].as_u64().unwrap_or(0));
    let ch = Channel::new(ChannelMetrics::new(c["bitrate"].as_u64().unwrap() as usize, tick * c["lat"].as_u64().unwrap() as u32, jitter, policy));
    WEAK_CHANS.with(|w| w.borrow_mut().push(std::sync::Arc::downgrade(&ch)));
    Some(ch)
}

thread_local! {
    /// the gate c.t while the link a.o2 -> c.t still has to be wired during the run
    static LATE_CT: RefCell<Option<(GateRef, Option<des::net::channel::ChannelRef>)>> = const { RefCell::new(None) };
    static WEAK_GATES: RefCell<Vec<std::sync::Weak<des::net::gate::Gate>>> = const { RefCell::new(Vec::new()) };
    static WEAK_CHANS: RefCell<Vec<std::sync::Weak<des::net::channel::Channel>>> = const { RefCell::new(Vec::new()) };
}
fn track_gate(g: GateRef) -> GateRef {
    WEAK_GATES.with(|w| w.borrow_mut().push(std::sync::Arc::downgrade(&g)));
    g
}

pub struct Outcome {
    pub gates_alive: usize,
    pub channels_alive: usize,
    pub log: Vec<Value>,
    pub err: BTreeSet<String>,
    pub tend: i64,
    /// transmission starts seen by the channel probes
    pub txlog: Vec<Value>,
    /// per module: "no" (never panicked) | "dead" (panicked, nothing of it ran in a later incarnation) | "revived"
    pub dead: std::collections::BTreeMap<String, &'static str>,
    pub result_ok: bool,
    pub live_after_drop: [i64; 3],
    pub dropped_twice: u64,
    pub panicked: bool,
}

/// Builds and runs one scenario; everything is dropped before the live counters are read.
pub fn run_scenario(cfg: &NetCfg, scripts: &Value, seed: u64) -> Outcome {
    run_scenario_stop(cfg, scripts, seed, "complete")
}

/// `stop`: "complete" (run to the time limit), "never" (built, never started), "events:K" (event-count limit K,
/// finished with events pending), "manual:K" (started, K events dispatched, dropped without finish)
pub fn run_scenario_stop(cfg: &NetCfg, scripts: &Value, seed: u64, stop: &str) -> Outcome {
    silence_panics();
    LOG.with(|l| l.borrow_mut().clear());
    TXLOG.with(|l| l.borrow_mut().clear());
    NEXT_MSG.with(|n| *n.borrow_mut() = 1);
    TICK.with(|t| *t.borrow_mut() = Duration::from_nanos(cfg.tick_ns));
    BYTES.with(|b| *b.borrow_mut() = cfg.bytes.clone());
    JITTER_NS.with(|j| *j.borrow_mut() = cfg.chans["1"]["jitter_ns"].as_u64().unwrap_or(0) as u128 * 4);
    LIVE.with(|l| *l.borrow_mut() = [0; 3]);
    DROPPED_TWICE.with(|d| *d.borrow_mut() = 0);
    WEAK_GATES.with(|w| w.borrow_mut().clear());
    WEAK_CHANS.with(|w| w.borrow_mut().clear());
    LATE_CT.with(|c| *c.borrow_mut() = None);
    let r = catch_unwind(AssertUnwindSafe(|| {
        let mut sim = Sim::new(());
        let any_stack = cfg.mods.iter().any(|m| cfg.stack[m].as_u64().unwrap_or(0) > 0);
        if any_stack {
            sim.set_stack(|| Pe0 { _life: Life::new(1), echo: false });
        }
        // modules are created in tree order; a module with an empty stack discards the default element
        for m in &cfg.mods {
            add_module(&mut sim, cfg, scripts, m);
        }
        // topology
        let ao = track_gate(sim.gate("a", "out"));
        let bi = track_gate(sim.gate("b", "in"));
        ao.clone().connect(bi, channel(cfg, "1"));
        // the forward direction of a connection carries a copy of the channel that was handed to connect: the probe goes
        // onto the instance that Gate::channel reports for the sending gate
        if let Some(ch) = ao.channel() {
            ch.attach_probe(TxProbe(1));
        }
        let bo = track_gate(sim.gate("b", "out"));
        let ai = track_gate(sim.gate("a", "in"));
        bo.clone().connect(ai, None);
        if cfg.topo == "T2" || cfg.topo == "T3" {
            let o2 = track_gate(sim.gate("a", "o2"));
            let ct = track_gate(sim.gate("c", "t"));
            let i2 = track_gate(sim.gate("b", "i2"));
            if cfg.topo == "T2" {
                o2.connect(ct.clone(), None);
                ct.connect(i2, channel(cfg, "2"));
            } else {
                // the channel lies before the transit gate
                if cfg.late_wire {
                    LATE_CT.with(|c| *c.borrow_mut() = Some((ct.clone(), channel(cfg, "2"))));
                } else {
                    o2.clone().connect(ct.clone(), channel(cfg, "2"));
                    if let Some(ch) = o2.channel() {
                        ch.attach_probe(TxProbe(2));
                    }
                }
                ct.connect(i2, None);
            }
        }
        // a ring of four transit gates (reference cycle among gates, never used for traffic)
        let (ra, rb, rc, rd) = (track_gate(sim.gate("a", "ring1")), track_gate(sim.gate("b", "ring1")), track_gate(sim.gate("b", "ring2")), track_gate(sim.gate("a", "ring2")));
        ra.clone().connect(rb.clone(), None);
        rb.connect(rc.clone(), channel(cfg, "1"));
        rc.connect(rd.clone(), None);
        rd.connect(ra, None);
        let limit = SimTime::from_duration(Duration::from_nanos(cfg.tick_ns) * cfg.max_t as u32 + Duration::from_nanos(cfg.tick_ns / 2));
        let k: usize = stop.split(':').nth(1).and_then(|x| x.parse().ok()).unwrap_or(0);
        // messages injected from outside between build and start (Runtime::handle_message_on / add_message_onto)
        let (ma, mb) = (ao.owner(), bo.owner());
        let (gao, gbo) = (ao.clone(), bo.clone());
        let inject = |rt: &mut Runtime<Sim<()>>| {
            for (i, x) in cfg.inject.iter().enumerate() {
                let bytes = cfg.bytes[x["size"].as_u64().unwrap() as usize] - 64;
                let msg = Message::default().id(501 + i as u16).kind(x["eat"].as_u64().unwrap() as u16).with_content(Payload { bytes, _life: Life::new(2) });
                let at = SimTime::from_duration(Duration::from_nanos(cfg.tick_ns) * x["t"].as_u64().unwrap() as u32);
                if x["k"] == "msg" {
                    let m = if x["m"] == "a" { ma.clone() } else { mb.clone() };
                    rt.handle_message_on(m, msg, at);
                } else {
                    let g = if x["g"] == "ao" { gao.clone() } else { gbo.clone() };
                    rt.add_message_onto(g, msg, at);
                }
            }
        };
        if stop == "never" {
            let mut rt = Builder::seeded(seed).quiet().max_time(limit).build(sim.freeze());
            // pending events at the far end of time (SimTime::MAX is the timestamp of the calendar queue's own sentinels)
            // are released with the runtime like any other
            for i in 0..2 {
                let msg = Message::default().id(9100 + i).with_content(Payload { bytes: 1, _life: Life::new(2) });
                rt.handle_message_on(ma.clone(), msg, if i == 0 { SimTime::MAX } else { SimTime::from_duration(Duration::from_secs(1 << 40)) });
            }
            drop(rt);
            return None;
        }
        if stop.starts_with("events") {
            let mut rt = Builder::seeded(seed).quiet().max_itr(k).build(sim.freeze());
            inject(&mut rt);
            return Some(rt.run());
        }
        if stop.starts_with("manual") {
            let mut rt = Builder::seeded(seed).quiet().max_time(limit).build(sim.freeze());
            inject(&mut rt);
            rt.start();
            rt.dispatch_n_events(k);
            drop(rt);
            return None;
        }
        let mut rt = Builder::seeded(seed).quiet().max_time(limit).build(sim.freeze());
        inject(&mut rt);
        if seed % 3 == 2 {
            // the other spelling of run(): start, advance tick by tick (paused at every tick boundary), finish; the last
            // boundary is the time limit, so exactly the same events are due
            rt.start();
            let mut seen = 0;
            for t in 0..=cfg.max_t {
                let until = Duration::from_nanos(cfg.tick_ns) * t as u32 + Duration::from_nanos(cfg.tick_ns / 2);
                rt.dispatch_events_until(SimTime::from_duration(until));
                let n = rt.num_events_dispatched();
                assert!(n >= seen && rt.sim_time() <= SimTime::from_duration(until), "stepping went backwards or past its bound");
                seen = n;
            }
            return Some(rt.finish());
        }
        Some(rt.run())
    }));
    let mut out = Outcome { gates_alive: 0, channels_alive: 0, log: Vec::new(), err: BTreeSet::new(), tend: -1, result_ok: false, live_after_drop: [0; 3], dropped_twice: 0, panicked: false, dead: Default::default(), txlog: Vec::new() };
    match r {
        Err(_) => out.panicked = true,
        Ok(None) => {}
        Ok(Some(res)) => {
            match &res {
                Ok((_, t, _)) => {
                    out.result_ok = true;
                    out.tend = (t.as_nanos() / cfg.tick_ns as u128) as i64;
                }
                Err(e) => {
                    for x in e.iter() {
                        if let Some(p) = x.as_any().downcast_ref::<PanicError>() {
                            out.err.insert(p.path.as_str().to_string());
                        } else if let Some(f) = x.as_any().downcast_ref::<EndFailure>() {
                            out.err.insert(format!("end:{}", f.0));
                        } else {
                            out.err.insert(format!("?{x}"));
                        }
                    }
                    out.tend = now_ticks();
                }
            }
            drop(res);
        }
    }
    out.log = LOG.with(|l| l.borrow().clone());
    out.txlog = TXLOG.with(|l| l.borrow().clone());
    for m in &cfg.mods {
        out.dead.insert(m.clone(), "no");
    }
    for (m, inc, at) in PANICS.with(|p| std::mem::take(&mut *p.borrow_mut())) {
        // after its panic the module handled a message or was started afresh (stage 0 after a panic can only be a restart)
        let _ = inc;
        let again = out.log[at..].iter().any(|e| e["m"] == m.as_str() && (e["o"] == "msg" || (e["o"] == "start" && e["stage"] == 0)));
        let cur = out.dead.get(&m).copied().unwrap_or("no");
        out.dead.insert(m, if again || cur == "revived" { "revived" } else { "dead" });
    }
    // the harness's own handle on c.t, if the link was never wired
    LATE_CT.with(|c| *c.borrow_mut() = None);
    out.live_after_drop = LIVE.with(|l| *l.borrow());
    out.dropped_twice = DROPPED_TWICE.with(|d| *d.borrow());
    out.gates_alive = WEAK_GATES.with(|w| w.borrow().iter().filter(|g| g.strong_count() > 0).count());
    out.channels_alive = WEAK_CHANS.with(|w| w.borrow().iter().filter(|g| g.strong_count() > 0).count());
    out
}

fn add_module(sim: &mut des::net::SimBuilder<()>, cfg: &NetCfg, scripts: &Value, m: &str) {
    let stack = cfg.stack[m].as_u64().unwrap_or(0) as usize;
    sim.node(
        m,
        Scripted {
            end_emit: cfg.end_emit,
            end_fail: cfg.endfail.iter().any(|x| x == m),
            name: m.to_string(),
            stages: cfg.stages[m].as_u64().unwrap_or(1) as usize,
            stack,
            scripts: scripts[m].as_array().cloned().unwrap_or_default(),
            k: 0,
            inc: 1,
            _life: Life::new(0),
        },
    );
    if cfg.catch[m].as_bool().unwrap_or(false) {
        let mr = sim.globals().get(&ObjectPath::from(m)).unwrap();
        let mut st = mr.stereotyp();
        st.on_panic_catch = true;
        mr.set_stereotyp(st);
    }
}

fn first_diff(exp: &[Value], got: &[Value]) -> Option<usize> {
    let n = exp.len().min(got.len());
    for i in 0..n {
        if exp[i] != got[i] {
            return Some(i);
        }
    }
    if exp.len() != got.len() { Some(n) } else { None }
}

pub fn replay(args: &[String]) {
    let path = &args[0];
    let cfgv: Value = serde_json::from_str(&std::fs::read_to_string(arg_value(args, "--cfg").expect("--cfg")).unwrap()).unwrap();
    let cfg = NetCfg::from(&cfgv);
    let mut s = Summary::default();
    for_each_line(path, |li, v| {
        s.behaviours += 1;
        s.replays += 1;
        if li < 1 {
            s.sample(json!({"scripts": v["scripts"], "log_head": v["log"].as_array().unwrap().iter().take(12).collect::<Vec<_>>()}));
        }
        watchdog::enter(|| json!({"scripts": v["scripts"], "cfg": cfgv}).to_string());
        let mut out = run_scenario(&cfg, &v["scripts"], 1 + li as u64);
        // the interpreter's log carries the probe entries ("tx") in flush order; they are compared as a sequence of their own
        let full_log = v["log"].as_array().unwrap();
        let exp_log_vec: Vec<Value> = full_log.iter().filter(|e| e["o"] != "tx").cloned().collect();
        // probes sit on channel 1 (a.out -> b.in) and, where the sending gate reaches it directly (T3), on channel 2
        let probed = |ch: u64| ch == 1 || (ch == 2 && cfg.topo == "T3");
        let exp_tx: Vec<Value> = full_log.iter().filter(|e| e["o"] == "tx" && probed(e["ch"].as_u64().unwrap_or(0))).cloned().collect();
        let exp_log = &exp_log_vec;
        // classes for the non-trivial count
        let txt = v["scripts"].to_string();
        if txt.contains("\"restart\"") || txt.contains("\"shutdown\"") { s.bump("with_shutdown", 1); }
        if txt.contains("\"panic\"") { s.bump("with_panic", 1); }
        if exp_log.iter().filter(|e| e["o"] == "msg").count() >= 3 { s.nontrivial += 1; }
        let mut fail = |field: &str, extra: Value| {
            let mut m = json!({"field": field, "behaviour": v, "cfg": cfgv});
            if let Some(o) = extra.as_object() {
                for (k, x) in o {
                    m[k] = x.clone();
                }
            }
            s.mismatch(m);
        };
        if out.panicked {
            fail("building or running the simulation panicked (panic escaped the simulator)", json!({}));
            return;
        }
        if cfgv["per_module"] == true {
            // jittering channels shift arrivals by a sub-tick offset: the order of observations of *different*
            // modules inside one tick is not determined, each module's own sequence is
            let mut bad = None;
            for m in &cfg.mods {
                let e: Vec<Value> = exp_log.iter().filter(|x| x["m"] == m.as_str()).cloned().collect();
                let g: Vec<Value> = out.log.iter().filter(|x| x["m"] == m.as_str()).cloned().collect();
                if let Some(i) = first_diff(&e, &g) {
                    bad = Some((m.clone(), i, e.get(i).cloned(), g.get(i).cloned()));
                    break;
                }
            }
            if let Some((m, i, e, g)) = bad {
                fail(&format!("observation log of module {m} diverges"), json!({"index": i, "expected": e, "got": g, "got_log": out.log}));
                return;
            }
        } else if let Some(i) = first_diff(exp_log, &out.log) {
            let what = exp_log.get(i).or(out.log.get(i)).map(|e| e["o"].as_str().unwrap_or("?").to_string()).unwrap_or_default();
            fail(&format!("observation log diverges at a '{what}' entry"), json!({"index": i, "expected": exp_log.get(i), "got": out.log.get(i), "got_log": out.log}));
            return;
        }
        // transmissions started by tear-down emissions (ids >= 9000, the C20 scenarios) are not part of the interpreter's run
        out.txlog.retain(|e| e["id"].as_u64().unwrap_or(0) < 9000);
        if cfgv["per_module"] != true && exp_tx != out.txlog {
            let i = first_diff(&exp_tx, &out.txlog).unwrap_or(0);
            fail("transmission starts seen by the channel probes", json!({"index": i, "expected": exp_tx.get(i), "got": out.txlog.get(i), "got_txlog": out.txlog}));
            return;
        }
        let mut exp_err: BTreeSet<String> = v["err"].as_array().unwrap().iter().map(|x| x.as_str().unwrap().to_string()).collect();
        exp_err.extend(v["endfail"].as_array().unwrap().iter().map(|x| format!("end:{}", x.as_str().unwrap())));
        if exp_err != out.err || out.result_ok != exp_err.is_empty() {
            fail("run() result: set of modules reported as panicked", json!({"expected": exp_err, "got": out.err}));
            return;
        }
        if out.result_ok && out.tend != v["tend"].as_i64().unwrap() {
            fail("end time of the run", json!({"expected": v["tend"], "got": out.tend}));
            return;
        }
        if out.live_after_drop != [0; 3] || out.dropped_twice != 0 || out.gates_alive != 0 || out.channels_alive != 0 {
            fail("objects alive after the simulation was dropped [modules, elements, message bodies] / double drops", json!({"got": out.live_after_drop, "double_drops": out.dropped_twice, "gates_alive": out.gates_alive, "channels_alive": out.channels_alive}));
            return;
        }
        if let Some(d) = v.get("dead").and_then(Value::as_object) {
            // C13: which modules panicked, and which of those ran again afterwards
            let exp: std::collections::BTreeMap<String, &str> = d.iter().map(|(k, x)| (k.clone(), match x.as_str().unwrap() { "pending" => "dead", o => o })).collect();
            let got: std::collections::BTreeMap<String, &str> = out.dead.iter().map(|(k, x)| (k.clone(), *x)).collect();
            if exp != got {
                s.mismatch(json!({"field": "modules that panicked / ran again after their panic", "behaviour": v, "cfg": cfgv, "expected": exp, "got": got, "got_log": out.log}));
                return;
            }
            if got.values().any(|x| *x == "revived") {
                s.bump("panicked_module_ran_again", 1);
                if s.extra.get("panicked_module_ran_again_sample").is_none() {
                    s.extra.insert("panicked_module_ran_again_sample".into(), json!({"behaviour": v, "cfg": cfgv, "got_log": out.log, "dead": got}));
                }
            } else if got.values().any(|x| *x == "dead") {
                s.bump("panicked_module_stayed_inert", 1);
            }
        }
        s.checks += out.log.len() as u64 + 3;
        // C20: the same scenario dropped at other stopping points; only the object accounting is compared
        if let Some(stops) = cfgv["stops"].as_array() {
            for st in stops {
                let st = st.as_str().unwrap();
                let o = run_scenario_stop(&cfg, &v["scripts"], 1 + li as u64, st);
                s.replays += 1;
                if o.panicked {
                    s.mismatch(json!({"field": format!("simulation stopped at '{st}': building / running / dropping panicked"), "behaviour": v, "cfg": cfgv, "stop": st}));
                } else if o.live_after_drop != [0; 3] || o.dropped_twice != 0 || o.gates_alive != 0 || o.channels_alive != 0 {
                    s.mismatch(json!({"field": format!("objects alive after a simulation stopped at '{}' was dropped [modules, elements, message bodies] / double drops", st.split(':').next().unwrap()),
                                      "got": o.live_after_drop, "double_drops": o.dropped_twice, "gates_alive": o.gates_alive, "channels_alive": o.channels_alive, "behaviour": v, "cfg": cfgv, "stop": st}));
                } else {
                    s.checks += 1;
                    s.bump("stopping_points_checked", 1);
                }
            }
        }
    });
    s.print();
}
