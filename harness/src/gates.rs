//! Suite `gates`: des::net::gate wiring, des::net::topology views and message delivery along chains,
//! against Gates.tla (C08 static + dynamic part, C19).
use crate::common::*;
use des::net::channel::{Channel, ChannelDropBehaviour, ChannelMetrics};
use des::net::gate::GateKind;
use des::net::topology::Topology;
use des::prelude::*;
use serde_json::{json, Value};
use std::cell::RefCell;
use std::collections::{BTreeMap, BTreeSet, HashMap};
use std::panic::{catch_unwind, AssertUnwindSafe};
use std::time::Duration;

#[derive(Clone, Debug)]
struct Recv {
    module: String,
    id: u16,
    t: Duration,
    last_gate: Option<String>,
    sender: ModuleId,
    receiver: ModuleId,
}

thread_local! {
    static LOG: RefCell<Vec<Recv>> = const { RefCell::new(Vec::new()) };
    /// module path -> (gate of ANOTHER module, message id): a module may send on any GateRef it holds; the header
    /// must name the module that sent, not the owner of the gate
    static FOREIGN: RefCell<HashMap<String, Vec<(GateRef, u16)>>> = RefCell::new(HashMap::new());
}

/// Sends one immediate and one delayed message on each listed gate at start-up, logs what it receives.
struct Probe {
    send_on: Vec<(String, usize, u16)>, // gate name, pos, message id
}

impl Module for Probe {
    fn at_sim_start(&mut self, _stage: usize) {
        for (name, pos, id) in &self.send_on {
            let g = current().gate(name, *pos).expect("gate exists");
            send(Message::default().id(*id), g.clone());
            send_in(Message::default().id(*id + 100), g, Duration::from_secs(1000));
        }
        let foreign = FOREIGN.with(|f| f.borrow().get(current().path().as_str()).cloned().unwrap_or_default());
        for (g, id) in foreign {
            send_in(Message::default().id(id), g, Duration::from_secs(2000));
        }
    }
    fn at_sim_end(&mut self) -> Result<(), RuntimeError> {
        // emissions during tear-down are never delivered: not in this simulation and not in the next one of the process
        schedule_in(Message::default().id(7777), Duration::from_secs(1));
        for (name, pos, id) in &self.send_on {
            let g = current().gate(name, *pos).expect("gate exists");
            send(Message::default().id(7000 + *id), g);
        }
        Ok(())
    }
    fn handle_message(&mut self, msg: Message) {
        let h = msg.header();
        LOG.with(|l| {
            l.borrow_mut().push(Recv {
                module: current().path().as_str().to_string(),
                id: h.id,
                t: *SimTime::now(),
                last_gate: h.last_gate.as_ref().map(|g| g.path().as_str().to_string()),
                sender: h.sender_module_id,
                receiver: h.receiver_module_id,
            })
        });
    }
}

const NAME_SCHEMES: [[&str; 4]; 3] = [["a", "ab", "b", "c"], ["alice", "alice.x", "bob", "bob.y"], ["n", "n.n", "n.n.n", "nn"]];

struct Built {
    sim: Option<des::net::SimBuilder<()>>,
    gates: Vec<GateRef>,          // index g-1
    gate_names: Vec<(String, usize)>,
    mod_paths: Vec<String>,       // index m-1
    poisoned: BTreeSet<usize>,
    lat: HashMap<(usize, usize), Duration>, // accepted connect (min,max) -> latency of the channel on that hop
}

fn err(field: &str, exp: impl std::fmt::Debug, got: impl std::fmt::Debug) -> Value {
    json!({"field": field, "expected": format!("{exp:?}"), "got": format!("{got:?}")})
}

fn build(obs: &Value, owner: &[usize], nm: usize, scheme: usize, cluster: bool) -> Result<Built, Value> {
    let names = NAME_SCHEMES[scheme % NAME_SCHEMES.len()];
    let mut sim = Sim::new(());
    let mod_paths: Vec<String> = (0..nm).map(|m| names[m].to_string()).collect();
    // which gates send: every gate (sending on a non-endpoint gate is decided later from the spec)
    let mut per_mod: Vec<Vec<usize>> = vec![Vec::new(); nm];
    for (gi, m) in owner.iter().enumerate() {
        per_mod[*m - 1].push(gi + 1);
    }
    let endpoint: BTreeSet<usize> = obs["gates"].as_array().unwrap().iter().filter(|g| g["kind"] == "endpoint").map(|g| g["g"].as_u64().unwrap() as usize).collect();
    let mut gate_names = vec![(String::new(), 0usize); owner.len()];
    for m in 0..nm {
        for (k, g) in per_mod[m].iter().enumerate() {
            gate_names[*g - 1] = if cluster { ("port".to_string(), k) } else { (format!("g{g}"), 0) };
        }
    }
    for m in 0..nm {
        let send_on = per_mod[m].iter().filter(|g| endpoint.contains(g)).map(|g| (gate_names[*g - 1].0.clone(), gate_names[*g - 1].1, *g as u16)).collect();
        sim.node(mod_paths[m].as_str(), Probe { send_on });
    }
    let mut gates: Vec<Option<GateRef>> = vec![None; owner.len()];
    for m in 0..nm {
        if cluster {
            if !per_mod[m].is_empty() {
                let gs = sim.gates(mod_paths[m].as_str(), "port", per_mod[m].len());
                for (k, g) in per_mod[m].iter().enumerate() {
                    gates[*g - 1] = Some(gs[k].clone());
                }
            }
        } else {
            for g in &per_mod[m] {
                gates[*g - 1] = Some(sim.gate(mod_paths[m].as_str(), &format!("g{g}")));
            }
        }
    }
    let gates: Vec<GateRef> = gates.into_iter().map(Option::unwrap).collect();
    let mut poisoned = BTreeSet::new();
    let mut lat = HashMap::new();
    for (k, c) in obs["calls"].as_array().unwrap().iter().enumerate() {
        let a = c["a"].as_u64().unwrap() as usize;
        let b = c["b"].as_u64().unwrap() as usize;
        let l = Duration::from_millis(1 << k);
        // 512 bit/s: a 64-byte message occupies a channel for exactly one second, so that messages sent from
        // both ends of a chain at the same instant overlap on every hop (each direction has its own channel)
        let ch = if k % 3 != 2 { Some(Channel::new(ChannelMetrics::new(512, l, Duration::ZERO, ChannelDropBehaviour::Drop))) } else { None };
        let (ga, gb) = (gates[a - 1].clone(), gates[b - 1].clone());
        let has_ch = ch.is_some();
        let r = catch_unwind(AssertUnwindSafe(|| ga.connect(gb, ch)));
        let exp = c["res"].as_str().unwrap();
        match (r.is_ok(), exp) {
            (true, "ok") => {
                lat.insert((a.min(b), a.max(b)), if has_ch { l + Duration::from_secs(1) } else { Duration::ZERO });
            }
            (true, "noop") => {}
            (false, "panic_self") => {}
            (false, "panic_full") => {
                poisoned.insert(a);
                poisoned.insert(b);
            }
            (got_ok, e) => return Err(json!({"field": "connect outcome", "call": k, "expected": e, "got": if got_ok { "returned" } else { "panicked" }})),
        }
    }
    Ok(Built { sim: Some(sim), gates, gate_names, mod_paths, poisoned, lat })
}

type EdgeKey = (String, String, String, String);

fn edge_set<N, C>(t: &Topology<N, C>) -> (BTreeSet<EdgeKey>, usize) {
    let mut s = BTreeSet::new();
    let mut n = 0;
    for e in t.edges() {
        n += 1;
        s.insert((e.from.module().path().as_str().to_string(), e.to.module().path().as_str().to_string(), e.from.gate().path().as_str().to_string(), e.to.gate().path().as_str().to_string()));
    }
    (s, n)
}

fn check_view<N: std::fmt::Debug, C>(what: &str, t: &Topology<N, C>, view: &Value, b: &Built, gate_path: &dyn Fn(usize) -> String) -> Result<u64, Value> {
    let exp_nodes: BTreeSet<String> = view["nodes"].as_array().unwrap().iter().map(|m| b.mod_paths[m.as_u64().unwrap() as usize - 1].clone()).collect();
    let got_nodes: Vec<String> = t.nodes().iter().map(|n| n.module().path().as_str().to_string()).collect();
    let got_set: BTreeSet<String> = got_nodes.iter().cloned().collect();
    if got_set != exp_nodes || got_nodes.len() != exp_nodes.len() {
        return Err(err(&format!("{what}: node set"), &exp_nodes, &got_nodes));
    }
    let exp_edges: BTreeSet<EdgeKey> = view["edges"].as_array().unwrap().iter().map(|e| {
        (b.mod_paths[e["from"].as_u64().unwrap() as usize - 1].clone(), b.mod_paths[e["to"].as_u64().unwrap() as usize - 1].clone(),
         gate_path(e["g1"].as_u64().unwrap() as usize), gate_path(e["g2"].as_u64().unwrap() as usize))
    }).collect();
    let (got_edges, n_edges) = edge_set(t);
    if got_edges != exp_edges || n_edges != exp_edges.len() {
        return Err(err(&format!("{what}: edge set"), &exp_edges, (&got_edges, n_edges)));
    }
    // edges_for(node) = the edges leaving that node
    for m in &exp_nodes {
        let exp: BTreeSet<&EdgeKey> = exp_edges.iter().filter(|e| &e.0 == m).collect();
        let got: Vec<EdgeKey> = t.edges_for(m.as_str()).map(|e| (e.from.module().path().as_str().to_string(), e.to.module().path().as_str().to_string(), e.from.gate().path().as_str().to_string(), e.to.gate().path().as_str().to_string())).collect();
        let gs: BTreeSet<&EdgeKey> = got.iter().collect();
        if gs != exp || got.len() != exp.len() {
            return Err(err(&format!("{what}: edges_for({m})"), &exp, &got));
        }
    }
    if t.connected() != view["connected"].as_bool().unwrap() {
        return Err(err(&format!("{what}: connected"), &view["connected"], t.connected()));
    }
    if t.bidirectional() != view["bidirectional"].as_bool().unwrap() {
        // what the node-level reading ("some edge leads back to the source node") says about the expected edge set
        let node_level = exp_edges.iter().all(|e| exp_edges.iter().any(|f| f.0 == e.1 && f.1 == e.0));
        let tag = if t.bidirectional() == node_level { " [answers at node level: an edge back to the source node, not between the same two gates]" } else { "" };
        return Err(err(&format!("{what}: bidirectional{tag}"), &view["bidirectional"], t.bidirectional()));
    }
    Ok(4 + exp_nodes.len() as u64)
}

fn replay_one(obs: &Value, owner: &[usize], nm: usize, variant: usize) -> Result<u64, Value> {
    silence_panics(); // a finished simulation restores the default panic hook
    let mut b = build(obs, owner, nm, variant, variant % 2 == 1)?;
    let mut checks = obs["calls"].as_array().unwrap().len() as u64;
    let gp: Vec<String> = b.gates.iter().map(|g| g.path().as_str().to_string()).collect();
    let gate_path = |g: usize| gp[g - 1].clone();
    let any_poison = !b.poisoned.is_empty();

    // ---- identity of every gate: name, cluster position / size, textual forms, owner (never touched by connect calls)
    for (gi, gate) in b.gates.iter().enumerate() {
        let (name, pos) = &b.gate_names[gi];
        let m = owner[gi] - 1;
        let size = if variant % 2 == 1 { owner.iter().filter(|o| **o == owner[gi]).count() } else { 1 };
        let exp_str = if size > 1 { format!("{name}[{pos}]") } else { name.clone() };
        let got = (gate.name().to_string(), gate.pos(), gate.size(), gate.is_cluster(), gate.str(), gate.path().as_str().to_string(), gate.owner().path().as_str().to_string());
        let exp = (name.clone(), *pos, size, size > 1, exp_str.clone(), format!("{}.{}", b.mod_paths[m], exp_str), b.mod_paths[m].clone());
        if got != exp {
            return Err(err(&format!("gate identity (name, pos, size, is_cluster, str, path, owner) of gate {}", gi + 1), &exp, &got));
        }
        checks += 1;
    }

    // ---- static gate queries (C08)
    for go in obs["gates"].as_array().unwrap() {
        let g = go["g"].as_u64().unwrap() as usize;
        if any_poison {
            // a connect that hit the two-peers limit panicked while holding gate locks; chains through
            // those gates cannot be queried any more (DESIGN C08) - only the panic itself is checked
            continue;
        }
        let gate = &b.gates[g - 1];
        let kind = match gate.kind() {
            GateKind::Standalone => "standalone",
            GateKind::Endpoint => "endpoint",
            GateKind::Transit => "transit",
        };
        if kind != go["kind"].as_str().unwrap() {
            return Err(err(&format!("kind of gate {}", gp[g - 1]), &go["kind"], kind));
        }
        let exp_path: Vec<String> = go["path"].as_array().unwrap().iter().map(|x| gate_path(x.as_u64().unwrap() as usize)).collect();
        match gate.path_iter() {
            None => {
                if kind != "transit" {
                    return Err(err("path_iter", "Some", "None"));
                }
            }
            Some(it) => {
                if kind == "transit" {
                    return Err(err("path_iter on transit gate", "None", "Some"));
                }
                let cons: Vec<_> = it.take(64).collect();
                let got: Vec<String> = cons.iter().map(|c| c.endpoint.path().as_str().to_string()).collect();
                if got != exp_path {
                    return Err(err(&format!("path_iter from {}", gp[g - 1]), &exp_path, &got));
                }
                // every connection on the path knows where it came from (prev_hop) and whether its hop has a channel
                let mut prev = gp[g - 1].clone();
                for c in &cons {
                    let ph = c.prev_hop().map(|x| x.path().as_str().to_string());
                    if ph.as_deref() != Some(prev.as_str()) {
                        return Err(err(&format!("Connection::prev_hop on the path from {}", gp[g - 1]), Some(&prev), &ph));
                    }
                    let here = c.endpoint.path().as_str().to_string();
                    let (ia, ib) = (gp.iter().position(|x| *x == prev).unwrap() + 1, gp.iter().position(|x| *x == here).unwrap() + 1);
                    let want_ch = b.lat.get(&(ia.min(ib), ia.max(ib))).map(|d| *d > Duration::ZERO);
                    if want_ch.is_some() && Some(c.channel.is_some()) != want_ch {
                        return Err(err(&format!("Connection::channel presence on hop {prev} -> {here}"), want_ch, c.channel.is_some()));
                    }
                    prev = here;
                }
                let ng = gate.next_gate().map(|x| x.path().as_str().to_string());
                if ng != exp_path.first().cloned() {
                    return Err(err("next_gate", exp_path.first(), ng));
                }
                let pe = gate.path_end().map(|x| x.path().as_str().to_string());
                if pe != exp_path.last().cloned() {
                    return Err(err("path_end", exp_path.last(), pe));
                }
            }
        }
        checks += 4;
    }

    let mut sim = b.sim.take().unwrap();
    if !any_poison {
        // ---- topology views (C19)
        let globals = sim.globals();
        let topo = globals.topology();
        checks += check_view("global", &topo, &obs["global"], &b, &gate_path)?;
        for sp in obs["spanned"].as_array().unwrap() {
            let root = &b.mod_paths[sp["root"].as_u64().unwrap() as usize - 1];
            let mr = globals.get(&ObjectPath::from(root.as_str())).expect("module exists");
            let r = catch_unwind(AssertUnwindSafe(|| Topology::spanned(mr)));
            let Ok(t) = r else { return Err(json!({"field": format!("spanned({root}) panicked")})) };
            checks += check_view(&format!("spanned({root})"), &t, &sp["view"], &b, &gate_path)?;
        }
        for f in obs["filtered"].as_array().unwrap() {
            let keep: BTreeSet<String> = f["keep"].as_array().unwrap().iter().map(|m| b.mod_paths[m.as_u64().unwrap() as usize - 1].clone()).collect();
            let mut t = topo.clone();
            t.filter_nodes(|n| keep.contains(n.module().path().as_str()));
            checks += check_view(&format!("filter_nodes({keep:?})"), &t, &f["view"], &b, &gate_path)?;
        }
        for a in obs["asym"].as_array().unwrap() {
            let lt = a["dir"] == "lt";
            let idx = |p: &str| b.mod_paths.iter().position(|x| x == p).unwrap();
            let mut t = topo.clone();
            t.filter_edges(|e| {
                let (f, to) = (idx(e.from.module().path().as_str()), idx(e.to.module().path().as_str()));
                if lt { f < to } else { f > to }
            });
            checks += check_view(&format!("filter_edges(from {} to)", if lt { "<" } else { ">" }), &t, &a["view"], &b, &gate_path)?;
        }
        for c in obs["cut"].as_array().map(|a| a.as_slice()).unwrap_or(&[]) {
            let k = c["cut"].as_u64().unwrap() as usize;
            let kp = gate_path(k);
            let mut t = topo.clone();
            t.filter_edges(|e| e.from.gate().path().as_str() != kp);
            checks += check_view(&format!("filter_edges(not starting at {kp})"), &t, &c["view"], &b, &gate_path)?;
        }
        for d in obs["dijkstra"].as_array().unwrap() {
            let src = &b.mod_paths[d["src"].as_u64().unwrap() as usize - 1];
            let map = topo.dijkstra(src.as_str());
            let mut exp: BTreeMap<String, BTreeSet<(String, String)>> = BTreeMap::new();
            for t in d["targets"].as_array().unwrap() {
                let v = b.mod_paths[t["v"].as_u64().unwrap() as usize - 1].clone();
                exp.insert(v, t["first"].as_array().unwrap().iter().map(|e| (gate_path(e["g1"].as_u64().unwrap() as usize), gate_path(e["g2"].as_u64().unwrap() as usize))).collect());
            }
            let got_keys: BTreeSet<String> = map.keys().map(|k| k.as_str().to_string()).collect();
            let exp_keys: BTreeSet<String> = exp.keys().cloned().collect();
            if got_keys != exp_keys {
                return Err(err(&format!("dijkstra({src}): reachable targets"), &exp_keys, &got_keys));
            }
            for (k, e) in &map {
                let key = (e.from.gate().path().as_str().to_string(), e.to.gate().path().as_str().to_string());
                if e.from.module().path().as_str() != src.as_str() || !exp[k.as_str()].contains(&key) {
                    return Err(err(&format!("dijkstra({src})[{k}]: first edge of a minimum-hop path"), &exp[k.as_str()], &key));
                }
                checks += 1;
            }
        }
    }

    // ---- dynamic part (C08): messages sent on every chain endpoint, both directions, immediate and delayed
    if any_poison {
        return Ok(checks);
    }
    LOG.with(|l| l.borrow_mut().clear());
    let ids: Vec<ModuleId> = b.mod_paths.iter().map(|p| sim.globals().get(&ObjectPath::from(p.as_str())).unwrap().id()).collect();
    // every endpoint gate is also used by the module after its owner (cyclically) for one late message
    let foreign_sender = |g: usize| -> Option<usize> { if nm >= 2 { Some(owner[g - 1] % nm) } else { None } };   // 0-based module index
    FOREIGN.with(|f| {
        let mut f = f.borrow_mut();
        f.clear();
        for go in obs["gates"].as_array().unwrap() {
            if go["kind"] == "endpoint" {
                let g = go["g"].as_u64().unwrap() as usize;
                if let Some(ms) = foreign_sender(g) {
                    f.entry(b.mod_paths[ms].clone()).or_default().push((b.gates[g - 1].clone(), g as u16 + 200));
                }
            }
        }
    });
    let rt = Builder::seeded(7).quiet().build(sim.freeze());
    let res = catch_unwind(AssertUnwindSafe(|| rt.run()));
    let Ok(res) = res else { return Err(json!({"field": "run panicked"})) };
    if res.is_err() {
        return Err(json!({"field": "run returned Err"}));
    }
    drop(res);
    FOREIGN.with(|f| f.borrow_mut().clear());
    let log = LOG.with(|l| l.borrow().clone());
    let mut expected = 0usize;
    for go in obs["gates"].as_array().unwrap() {
        if go["kind"] != "endpoint" {
            continue;
        }
        let g = go["g"].as_u64().unwrap() as usize;
        let path: Vec<usize> = go["path"].as_array().unwrap().iter().map(|x| x.as_u64().unwrap() as usize).collect();
        let end = *path.last().unwrap();
        let mut total = Duration::ZERO;
        let mut prev = g;
        for h in &path {
            total += b.lat[&(prev.min(*h), prev.max(*h))];
            prev = *h;
        }
        let mut sends = vec![(g as u16, Duration::ZERO, owner[g - 1] - 1), (g as u16 + 100, Duration::from_secs(1000), owner[g - 1] - 1)];
        if let Some(ms) = foreign_sender(g) {
            sends.push((g as u16 + 200, Duration::from_secs(2000), ms));
        }
        for (mid, base, sender_mod) in sends {
            expected += 1;
            let hits: Vec<&Recv> = log.iter().filter(|r| r.id == mid).collect();
            if hits.len() != 1 {
                return Err(err(&format!("deliveries of the message sent on {}", gp[g - 1]), 1, hits.len()));
            }
            let r = hits[0];
            let exp_mod = &b.mod_paths[owner[end - 1] - 1];
            if &r.module != exp_mod {
                return Err(err(&format!("receiver of the message sent on {}", gp[g - 1]), exp_mod, &r.module));
            }
            if r.t != base + total {
                return Err(err(&format!("arrival time of the message sent on {} (sum of hop delays)", gp[g - 1]), base + total, r.t));
            }
            if r.last_gate.as_deref() != Some(gp[end - 1].as_str()) {
                return Err(err("header.last_gate", &gp[end - 1], &r.last_gate));
            }
            if r.sender != ids[sender_mod] || r.receiver != ids[owner[end - 1] - 1] {
                return Err(err(&format!("header sender/receiver module id (message sent by {} on {})", b.mod_paths[sender_mod], gp[g - 1]),
                               (ids[sender_mod], ids[owner[end - 1] - 1]), (r.sender, r.receiver)));
            }
            checks += 5;
        }
    }
    if log.len() != expected {
        return Err(err("total number of deliveries", expected, log.len()));
    }
    let _ = &b.gate_names;
    Ok(checks)
}

pub fn replay(args: &[String]) {
    let path = &args[0];
    let owner: Vec<usize> = arg_value(args, "--owner").expect("--owner").split(',').map(|x| x.parse().unwrap()).collect();
    let nm = arg_u64(args, "--nm", 3) as usize;
    let variants = arg_u64(args, "--variants", 2) as usize;
    let mut s = Summary::default();
    for_each_line(path, |li, v| {
        s.behaviours += 1;
        if li < 1 {
            s.sample(json!({"calls": v["calls"], "gates": v["gates"], "global": v["global"]}));
        }
        let n_edges = v["global"]["edges"].as_array().map(Vec::len).unwrap_or(0);
        let transit = v["gates"].as_array().unwrap().iter().any(|g| g["kind"] == "transit");
        if n_edges >= 2 && transit {
            s.nontrivial += 1;
        }
        for var in 0..variants {
            s.replays += 1;
            watchdog::enter(|| json!({"calls": v["calls"], "variant": var + li}).to_string());
            match replay_one(&v, &owner, nm, var + li) {
                Ok(c) => s.checks += c,
                Err(mut m) => {
                    m["calls"] = v["calls"].clone();
                    m["variant"] = json!(var + li);
                    m["owner"] = json!(owner);
                    m["behaviour"] = v.clone();
                    s.mismatch(m);
                }
            }
        }
    });
    s.print();
}


// ------------------------------------------------------------------ direction V
/// `vh gates record --seed S --runs R --out F`: random connect sequences over 12 gates on 7 modules
/// (owner map Own12x7 of Gates.tla); call outcomes and topology observations as ndjson for Trace_Gates.
pub fn record(args: &[String]) {
    use std::io::Write;
    let seed = arg_u64(args, "--seed", 1);
    let runs = arg_u64(args, "--runs", 50);
    let outp = arg_value(args, "--out").expect("--out");
    let dense = arg_u64(args, "--dense", 0);
    // 0: 7 modules (Own12x7); 1: 5 modules with up to 3 gates each (Own12x5: more rings, higher degree); 2: 6 modules (Own12x6)
    let owner: [usize; 12] = match dense {
        1 => [1, 1, 1, 2, 2, 2, 3, 3, 4, 4, 5, 5],
        2 => [1, 1, 1, 2, 2, 3, 3, 4, 5, 5, 6, 6],
        _ => [1, 1, 1, 2, 2, 3, 3, 4, 5, 6, 7, 7],
    };
    let nm = match dense { 1 => 5, 2 => 6, _ => 7 };
    let names = ["m1", "m2", "m2.x", "m3", "m3.y", "mm", "z"];
    let mut rng = Rng(seed.wrapping_mul(0x51_7cc1_b727_220a_95) ^ 0x6a7e5);
    let mut out = std::io::BufWriter::new(std::fs::File::create(&outp).unwrap());
    let mut s = Summary::default();
    for r in 0..runs {
        silence_panics();
        watchdog::enter(|| json!({"gates_record_run": r, "seed": seed}).to_string());
        writeln!(out, "{}", json!({"op": "reset"})).unwrap();
        let mut sim = Sim::new(());
        for n in names.iter().take(nm) {
            sim.node(*n, Probe { send_on: vec![] });
        }
        let gates: Vec<GateRef> = (0..12).map(|g| sim.gate(names[owner[g] - 1], &format!("g{}", g + 1))).collect();
        let ncalls = 5 + rng.below(5);
        let mut dead = false;
        for _ in 0..ncalls {
            // mostly pick gates that can still take a peer, so that most runs end with an observation
            let free: Vec<usize> = (0..12).filter(|g| gates[*g].kind() != GateKind::Transit).collect();
            let pick = |rng: &mut Rng| if !free.is_empty() && !rng.chance(1, 25) { free[rng.below(free.len() as u64) as usize] } else { rng.below(12) as usize };
            let a = pick(&mut rng);
            let b = if rng.chance(1, 15) { a } else { pick(&mut rng) };
            let res = catch_unwind(AssertUnwindSafe(|| gates[a].clone().connect(gates[b].clone(), None)));
            // classify the outcome from what can be observed
            let kind_before_ok = res.is_ok();
            let resname = if a == b {
                if kind_before_ok { "ok" } else { "panic_self" }
            } else if kind_before_ok {
                "ok_or_noop"
            } else {
                "panic_full"
            };
            writeln!(out, "{}", json!({"op": "connect", "a": a + 1, "b": b + 1, "res": resname})).unwrap();
            if resname == "panic_full" {
                dead = true;
                break;
            }
        }
        if !dead {
            let gidx = |g: &GateRef| gates.iter().position(|x| std::sync::Arc::ptr_eq(x, g)).map(|i| i + 1).unwrap_or(0);
            let midx = |p: &str| names.iter().position(|x| *x == p).map(|i| i + 1).unwrap_or(0);
            let gobs: Vec<Value> = gates.iter().enumerate().map(|(i, g)| {
                let kind = match g.kind() { GateKind::Standalone => "standalone", GateKind::Endpoint => "endpoint", GateKind::Transit => "transit" };
                let path: Vec<usize> = g.path_iter().map(|it| it.take(64).map(|c| gidx(&c.endpoint)).collect()).unwrap_or_default();
                json!({"g": i + 1, "kind": kind, "path": path})
            }).collect();
            let view = |t: &Topology<(), ()>| -> Value {
                let nodes: Vec<usize> = t.nodes().iter().map(|n| midx(n.module().path().as_str())).collect();
                let edges: Vec<Value> = t.edges().map(|e| json!([midx(e.from.module().path().as_str()), midx(e.to.module().path().as_str()), gidx(&e.from.gate()), gidx(&e.to.gate())])).collect();
                json!({"nodes": nodes, "edges": edges, "connected": t.connected(), "bidirectional": t.bidirectional()})
            };
            let globals = sim.globals();
            let topo = globals.topology();
            let spanned: Vec<Value> = (0..nm).map(|m| {
                let mr = globals.get(&ObjectPath::from(names[m])).unwrap();
                json!({"root": m + 1, "view": view(&Topology::spanned(mr))})
            }).collect();
            let dijkstra: Vec<Value> = (0..nm).map(|m| {
                let map = topo.dijkstra(names[m]);
                let targets: Vec<Value> = map.iter().map(|(k, e)| json!([midx(k.as_str()), gidx(&e.from.gate()), gidx(&e.to.gate())])).collect();
                json!({"src": m + 1, "targets": targets})
            }).collect();
            writeln!(out, "{}", json!({"op": "obs", "gates": gobs, "global": view(&topo), "spanned": spanned, "dijkstra": dijkstra})).unwrap();
        }
        s.behaviours += 1;
        drop(sim);
    }
    out.flush().unwrap();
    s.print();
}
