//! Suite `tree`: SimBuilder::node / module tree order / start-up and tear-down order (C12) against Tree.tla.
use crate::common::*;
use des::net::module::Module;
use des::prelude::*;
use serde_json::{json, Value};
use std::cell::RefCell;
use std::panic::{catch_unwind, AssertUnwindSafe};

thread_local! {
    static LOG: RefCell<Vec<Value>> = const { RefCell::new(Vec::new()) };
}

struct Node {
    stages: usize,
    children: Vec<String>,
    parent: Option<String>,
}

impl Module for Node {
    fn num_sim_start_stages(&self) -> usize {
        self.stages
    }
    fn at_sim_start(&mut self, stage: usize) {
        let me = current();
        // lookups must agree with the declared tree
        let parent_ok = match (&self.parent, me.parent()) {
            (Some(p), Ok(m)) => m.path().as_str() == p,
            (None, Err(_)) => true,
            _ => false,
        };
        let children_ok = self.children.iter().all(|c| me.child(c).map(|m| m.path().as_str() == format!("{}.{}", me.path().as_str(), c)).unwrap_or(false));
        let name_ok = me.path().as_str().rsplit('.').next() == Some(me.name().as_str());
        LOG.with(|l| l.borrow_mut().push(json!({"o": "start", "p": me.path().as_str(), "stage": stage, "lookups_ok": parent_ok && children_ok && name_ok})));
    }
    fn at_sim_end(&mut self) -> Result<(), RuntimeError> {
        LOG.with(|l| l.borrow_mut().push(json!({"o": "end", "p": current().path().as_str()})));
        Ok(())
    }
}

fn emb(name: &str, e: usize) -> String {
    match (e % 2, name) {
        (0, n) => n.to_string(),
        (_, "a") => "alice".into(),
        (_, "ab") => "alicent".into(),
        (_, "b") => "b\u{f6}b".into(),
        (_, n) => n.to_string(),
    }
}

fn pathstr(p: &Value, e: usize) -> String {
    p.as_array().unwrap().iter().map(|s| emb(s.as_str().unwrap(), e)).collect::<Vec<_>>().join(".")
}

fn replay_one(obs: &Value, e: usize) -> Result<u64, Value> {
    silence_panics();
    LOG.with(|l| l.borrow_mut().clear());
    let calls = obs["calls"].as_array().unwrap();
    // children / parent of every successfully created node (from the call list itself)
    let oks: Vec<String> = calls.iter().filter(|c| c["res"] == "ok").map(|c| pathstr(&c["p"], e)).collect();
    let mut sim = Sim::new(());
    let mut checks = 0;
    for (k, c) in calls.iter().enumerate() {
        let p = pathstr(&c["p"], e);
        let parent = p.rfind('.').map(|i| p[..i].to_string());
        let children: Vec<String> = oks.iter().filter(|o| o.len() > p.len() && o.starts_with(&format!("{p}.")) && !o[p.len() + 1..].contains('.')).map(|o| o[p.len() + 1..].to_string()).collect();
        let node = Node { stages: c["st"].as_u64().unwrap() as usize, children, parent };
        let r = catch_unwind(AssertUnwindSafe(|| sim.node(p.as_str(), node)));
        let exp_ok = c["res"] == "ok";
        if r.is_ok() != exp_ok {
            return Err(json!({"field": "SimBuilder::node outcome", "call": k, "path": p, "expected": c["res"], "got": if r.is_ok() { "ok" } else { "panic" }}));
        }
        checks += 1;
    }
    let exp_order: Vec<String> = obs["order"].as_array().unwrap().iter().map(|p| pathstr(p, e)).collect();
    let got_order: Vec<String> = sim.nodes().map(|p| p.as_str().to_string()).collect();
    if got_order != exp_order {
        return Err(json!({"field": "module tree order (Sim::nodes)", "expected": exp_order, "got": got_order}));
    }
    let rt = Builder::seeded(3).quiet().build(sim.freeze());
    let Ok(res) = catch_unwind(AssertUnwindSafe(|| rt.run())) else { return Err(json!({"field": "run panicked"})) };
    if res.is_err() {
        return Err(json!({"field": "run returned Err"}));
    }
    drop(res);
    let log = LOG.with(|l| l.borrow().clone());
    let mut exp: Vec<Value> = obs["start"].as_array().unwrap().iter().map(|s| json!({"o": "start", "p": pathstr(&s["p"], e), "stage": s["stage"], "lookups_ok": true})).collect();
    exp.extend(obs["stop"].as_array().unwrap().iter().map(|p| json!({"o": "end", "p": pathstr(p, e)})));
    if log != exp {
        let i = (0..log.len().min(exp.len())).find(|i| log[*i] != exp[*i]).unwrap_or(log.len().min(exp.len()));
        return Err(json!({"field": "start-up / tear-down callback sequence", "index": i, "expected": exp.get(i), "got": log.get(i), "got_log": log}));
    }
    Ok(checks + log.len() as u64 + 1)
}

pub fn replay(args: &[String]) {
    let path = &args[0];
    let mut s = Summary::default();
    for_each_line(path, |li, v| {
        s.behaviours += 1;
        if li < 2 {
            s.sample(v.clone());
        }
        // non-trivial: siblings of different parents interleaved in creation order, or a failing call
        let calls = v["calls"].as_array().unwrap();
        if calls.iter().any(|c| c["res"] != "ok") || v["order"] != json!(calls.iter().filter(|c| c["res"] == "ok").map(|c| c["p"].clone()).collect::<Vec<_>>()) {
            s.nontrivial += 1;
        }
        for e in 0..2 {
            s.replays += 1;
            watchdog::enter(|| json!({"calls": v["calls"], "emb": e}).to_string());
            match replay_one(&v, e) {
                Ok(c) => s.checks += c,
                Err(mut m) => {
                    m["emb"] = json!(e);
                    m["behaviour"] = v.clone();
                    s.mismatch(m);
                }
            }
        }
    });
    s.print();
}
