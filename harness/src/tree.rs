//! Suite `tree`: SimBuilder::node / module tree order / start-up and tear-down order (C12) against Tree.tla.
use crate::common::*;
use des::net::module::Module;
use des::prelude::*;
use serde_json::{json, Value};
use std::cell::RefCell;
use std::panic::{catch_unwind, AssertUnwindSafe};

thread_local! {
    static LOG: RefCell<Vec<Value>> = const { RefCell::new(Vec::new()) };
}

struct Node {
    stages: usize,
    children: Vec<String>,
    parent: Option<String>,
}

impl Module for Node {
    fn num_sim_start_stages(&self) -> usize {
        self.stages
    }
    fn at_sim_start(&mut self, stage: usize) {
        let me = current();
        // lookups must agree with the declared tree
        let parent_ok = match (&self.parent, me.parent()) {
            (Some(p), Ok(m)) => m.path().as_str() == p,
            (None, Err(_)) => true,
            _ => false,
        };
        let children_ok = self.children.iter().all(|c| me.child(c).map(|m| m.path().as_str() == format!("{}.{}", me.path().as_str(), c)).unwrap_or(false));
        let name_ok = me.path().as_str().rsplit('.').next() == Some(me.name().as_str());
        LOG.with(|l| l.borrow_mut().push(json!({"o": "start", "p": me.path().as_str(), "stage": stage, "lookups_ok": parent_ok && children_ok && name_ok})));
    }
    fn at_sim_end(&mut self) -> Result<(), RuntimeError> {
        LOG.with(|l| l.borrow_mut().push(json!({"o": "end", "p": current().path().as_str()})));
        Ok(())
    }
}

fn emb(name: &str, e: usize) -> String {
    match (e % 2, name) {
        (0, n) => n.to_string(),
        (_, "a") => "alice".into(),
        (_, "ab") => "alicent".into(),
        (_, "b") => "b\u{f6}b".into(),
        (_, n) => n.to_string(),
    }
}

fn pathstr(p: &Value, e: usize) -> String {
    p.as_array().unwrap().iter().map(|s| emb(s.as_str().unwrap(), e)).collect::<Vec<_>>().join(".")
}

/// creates one node below the scope it is built in, addressed by a path relative to that scope
struct Rel {
    rel: String,
    node: Node,
}
impl des::net::blocks::ModuleBlock for Rel {
    type Ret = ();
    fn build<A>(self, mut sim: des::net::SimBuilderScoped<'_, A>) {
        sim.node(self.rel.as_str(), self.node);
    }
}

/// `e`: bit 0 = name embedding; e / 2 = how nodes are created: 0 = SimBuilder::node with the full path, 1 = through a
/// scoped builder rooted at the parent (relative path = last component), 2 = through a scoped builder rooted at the top-level
/// ancestor (relative path = all further components)
fn replay_one(obs: &Value, e: usize) -> Result<u64, Value> {
    let via = e / 2;
    silence_panics();
    LOG.with(|l| l.borrow_mut().clear());
    let calls = obs["calls"].as_array().unwrap();
    // children / parent of every successfully created node (from the call list itself)
    let oks: Vec<String> = calls.iter().filter(|c| c["res"] == "ok").map(|c| pathstr(&c["p"], e)).collect();
    let mut sim = Sim::new(());
    let mut checks = 0;
    for (k, c) in calls.iter().enumerate() {
        let p = pathstr(&c["p"], e);
        let parent = p.rfind('.').map(|i| p[..i].to_string());
        let children: Vec<String> = oks.iter().filter(|o| o.len() > p.len() && o.starts_with(&format!("{p}.")) && !o[p.len() + 1..].contains('.')).map(|o| o[p.len() + 1..].to_string()).collect();
        let node = Node { stages: c["st"].as_u64().unwrap() as usize, children, parent };
        let r = catch_unwind(AssertUnwindSafe(|| match (via, p.find('.'), p.rfind('.')) {
            (1, _, Some(i)) => sim.node(&p[..i], Rel { rel: p[i + 1..].to_string(), node }),
            (2, Some(i), _) => sim.node(&p[..i], Rel { rel: p[i + 1..].to_string(), node }),
            _ => sim.node(p.as_str(), node),
        }));
        let exp_ok = c["res"] == "ok";
        if r.is_ok() != exp_ok {
            let how = ["SimBuilder::node", "SimBuilderScoped::node (scope = parent)", "SimBuilderScoped::node (scope = top-level ancestor)"][via];
            return Err(json!({"field": format!("{how} outcome"), "call": k, "path": p, "expected": c["res"], "got": if r.is_ok() { "ok" } else { "panic" }}));
        }
        checks += 1;
    }
    let exp_order: Vec<String> = obs["order"].as_array().unwrap().iter().map(|p| pathstr(p, e)).collect();
    let got_order: Vec<String> = sim.nodes().map(|p| p.as_str().to_string()).collect();
    if got_order != exp_order {
        return Err(json!({"field": "module tree order (Sim::nodes)", "expected": exp_order, "got": got_order}));
    }
    let rt = Builder::seeded(3).quiet().build(sim.freeze());
    let Ok(res) = catch_unwind(AssertUnwindSafe(|| rt.run())) else { return Err(json!({"field": "run panicked"})) };
    if res.is_err() {
        return Err(json!({"field": "run returned Err"}));
    }
    drop(res);
    let log = LOG.with(|l| l.borrow().clone());
    let mut exp: Vec<Value> = obs["start"].as_array().unwrap().iter().map(|s| json!({"o": "start", "p": pathstr(&s["p"], e), "stage": s["stage"], "lookups_ok": true})).collect();
    exp.extend(obs["stop"].as_array().unwrap().iter().map(|p| json!({"o": "end", "p": pathstr(p, e)})));
    if log != exp {
        let i = (0..log.len().min(exp.len())).find(|i| log[*i] != exp[*i]).unwrap_or(log.len().min(exp.len()));
        return Err(json!({"field": "start-up / tear-down callback sequence", "index": i, "expected": exp.get(i), "got": log.get(i), "got_log": log}));
    }
    Ok(checks + log.len() as u64 + 1)
}

pub fn replay(args: &[String]) {
    let path = &args[0];
    let mut s = Summary::default();
    for_each_line(path, |li, v| {
        s.behaviours += 1;
        if li < 2 {
            s.sample(v.clone());
        }
        // non-trivial: siblings of different parents interleaved in creation order, or a failing call
        let calls = v["calls"].as_array().unwrap();
        if calls.iter().any(|c| c["res"] != "ok") || v["order"] != json!(calls.iter().filter(|c| c["res"] == "ok").map(|c| c["p"].clone()).collect::<Vec<_>>()) {
            s.nontrivial += 1;
        }
        for e in 0..6 {
            s.replays += 1;
            watchdog::enter(|| json!({"calls": v["calls"], "emb": e}).to_string());
            match replay_one(&v, e) {
                Ok(c) => s.checks += c,
                Err(mut m) => {
                    m["emb"] = json!(e);
                    m["behaviour"] = v.clone();
                    s.mismatch(m);
                }
            }
        }
    });
    s.print();
}

// ------------------------------------------------------------------ ObjectPath (Path.tla)
fn emb_seg(s: &str, e: usize) -> String {
    if e == 0 {
        return s.to_string();
    }
    // multi-byte names with a byte-prefix relation (a / ab -> ü / üb)
    match s {
        "a" => "ü".to_string(),
        "ab" => "üb".to_string(),
        "b" => "βeta".to_string(),
        o => o.to_string(),
    }
}

fn render(segs: &Value, e: usize) -> String {
    segs.as_array().unwrap().iter().map(|s| emb_seg(s.as_str().unwrap(), e)).collect::<Vec<_>>().join(".")
}

fn hash_of(p: &ObjectPath) -> u64 {
    use std::hash::{Hash, Hasher};
    let mut h = std::collections::hash_map::DefaultHasher::new();
    p.hash(&mut h);
    h.finish()
}

/// the same path built in the canonical way: parsed from its string (gate paths: parsed module path + appended_gate)
fn canonical(view: &Value, e: usize) -> ObjectPath {
    let segs = view["segs"].as_array().unwrap();
    if view["module"] == true {
        ObjectPath::from(render(&view["segs"], e).as_str())
    } else {
        let front = Value::Array(segs[..segs.len() - 1].to_vec());
        ObjectPath::from(render(&front, e).as_str()).appended_gate(emb_seg(segs[segs.len() - 1].as_str().unwrap(), e))
    }
}

fn check_view(p: &ObjectPath, view: &Value, e: usize, step: usize) -> Result<u64, Value> {
    let fail = |field: &str, exp: Value, got: Value| json!({"field": format!("ObjectPath::{field}"), "expected": exp, "got": got, "step": step});
    let s = render(&view["segs"], e);
    if p.as_str() != s {
        return Err(fail("as_str", json!(s), json!(p.as_str())));
    }
    if p.to_string() != s {
        return Err(fail("to_string", json!(s), json!(p.to_string())));
    }
    if p.len() as u64 != view["len"].as_u64().unwrap() {
        return Err(fail("len", view["len"].clone(), json!(p.len())));
    }
    let name = emb_seg(view["name"].as_str().unwrap(), e);
    if p.name() != name {
        return Err(fail("name", json!(name), json!(p.name())));
    }
    if p.is_root() != (view["root"] == true) {
        return Err(fail("is_root", view["root"].clone(), json!(p.is_root())));
    }
    if p.is_module() != (view["module"] == true) {
        return Err(fail("is_module", view["module"].clone(), json!(p.is_module())));
    }
    let pstr = render(&view["pstr"], e);
    if p.as_parent_str() != pstr {
        return Err(fail("as_parent_str", json!(pstr), json!(p.as_parent_str())));
    }
    for (key, got) in [("parent", p.parent()), ("nzparent", p.nonzero_parent())] {
        let exp = &view[key];
        match (exp[0].as_str().unwrap(), got) {
            ("none", None) => {}
            ("some", Some(g)) => {
                let want = ObjectPath::from(render(&exp[1], e).as_str());
                if g.as_str() != want.as_str() || g != want || hash_of(&g) != hash_of(&want) || g.name() != want.name() || g.len() != want.len() {
                    return Err(fail(if key == "parent" { "parent" } else { "nonzero_parent" }, json!({"str": want.as_str(), "name": want.name(), "len": want.len()}),
                                    json!({"str": g.as_str(), "name": g.name(), "len": g.len(), "equal_to_parsed": g == want})));
                }
            }
            (e2, g) => return Err(fail(if key == "parent" { "parent" } else { "nonzero_parent" }, json!(e2), json!(g.map(|x| x.as_str().to_string())))),
        }
    }
    // the owned-string conversions agree with the borrowed one, the default path is the root
    if view["module"] == true {
        let owned = ObjectPath::from(s.clone());
        let by_ref = ObjectPath::from(&s);
        let borrowed = ObjectPath::from(s.as_str());
        if owned != borrowed || by_ref != borrowed || owned.len() != borrowed.len() || owned.name() != borrowed.name() || owned.is_root() != borrowed.is_root() {
            return Err(fail("From<String> / From<&String> against From<&str>", json!({"len": borrowed.len(), "name": borrowed.name(), "root": borrowed.is_root()}),
                            json!({"len": owned.len(), "name": owned.name(), "root": owned.is_root(), "eq": owned == borrowed, "ref_eq": by_ref == borrowed})));
        }
        if s.is_empty() && (ObjectPath::default() != borrowed || !ObjectPath::default().is_root()) {
            return Err(fail("Default (the root path)", json!("== from(\"\")"), json!(ObjectPath::default().as_str())));
        }
    }
    // however it was built, the path equals (and hashes like) the canonically built one: module lookups go by path
    let c = canonical(view, e);
    if *p != c || hash_of(p) != hash_of(&c) {
        return Err(fail("eq / hash against the same path built from its string", json!(true), json!({"eq": *p == c, "same_hash": hash_of(p) == hash_of(&c)})));
    }
    Ok(10)
}

fn path_one(steps: &[Value], e: usize) -> Result<u64, Value> {
    let mut checks = 0;
    let mut cur = ObjectPath::from(render(&steps[0]["view"]["segs"], e).as_str());
    checks += check_view(&cur, &steps[0]["view"], e, 0)?;
    for (i, st) in steps.iter().enumerate().skip(1) {
        let seg = st["seg"].as_str().map(|s| emb_seg(s, e)).unwrap_or_default();
        match st["op"].as_str().unwrap() {
            "appended" => cur = cur.appended(&seg),
            "appended_gate" => cur = cur.appended_gate(&seg),
            "appended_path" => cur = cur.appended(render(&st["rel"], e)),
            "parent" => match (st["res"].as_str().unwrap(), cur.parent()) {
                ("none", None) => {}
                ("some", Some(p)) => cur = p,
                (exp, got) => return Err(json!({"field": "ObjectPath::parent", "expected": exp, "got": got.map(|x| x.as_str().to_string()), "step": i})),
            },
            o => panic!("unknown op {o}"),
        }
        checks += check_view(&cur, &st["view"], e, i)?;
    }
    Ok(checks)
}

/// `vh tree paths <file>`: behaviours of Path.tla on des::net::ObjectPath
pub fn paths(args: &[String]) {
    let path = &args[0];
    let mut s = Summary::default();
    for_each_line(path, |li, v| {
        s.behaviours += 1;
        let steps = v.as_array().unwrap();
        if li < 1 {
            s.sample(v.clone());
        }
        if steps.iter().any(|x| x["op"] == "parent") && steps.iter().any(|x| x["op"] == "appended") {
            s.nontrivial += 1;
        }
        for e in 0..2 {
            s.replays += 1;
            watchdog::enter(|| json!({"steps": v, "emb": e}).to_string());
            let r = catch_unwind(AssertUnwindSafe(|| path_one(steps, e)));
            match r {
                Ok(Ok(c)) => s.checks += c,
                Ok(Err(mut m)) => {
                    m["emb"] = json!(e);
                    m["behaviour"] = v.clone();
                    s.mismatch(m);
                }
                Err(_) => s.mismatch(json!({"field": "an ObjectPath operation panicked", "emb": e, "behaviour": v})),
            }
        }
    });
    s.print();
}
