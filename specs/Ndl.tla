-------------------------------- MODULE Ndl --------------------------------
(***************************************************************************)
(* C18: elaboration of a network description (des_net_utils::ndl::transform*)
(* followed by SimBuilder::nodes_from_ndl) as a function                   *)
(*      Elab(def) = error class | flat network                             *)
(* A description is a record [entry, mods, links]; the flat network is the *)
(* set of module paths with their type symbol and gates, and the set of    *)
(* connections between gate paths with their link.                         *)
(* Kardinality: -1 = atom, n >= 0 = cluster of n (definitions) resp. index *)
(* n (accessors).                                                          *)
(***************************************************************************)
EXTENDS Integers, Sequences, FiniteSets, TLC

Atom == -1
F(id, k) == [id |-> id, k |-> k]
Sub(id, k, typ, args) == [id |-> id, k |-> k, typ |-> typ, args |-> args]
Con(a, b, link) == [a |-> a, b |-> b, link |-> link]
Mod(gen, inherit, gates, subs, conns) == [gen |-> gen, inherit |-> inherit, gates |-> gates, subs |-> subs, conns |-> conns]
Gen(bind, bound) == [bind |-> bind, bound |-> bound]

SeqSet(s) == {s[i] : i \in 1..Len(s)}
Names(d) == DOMAIN d.mods
Bindings(m) == {m.gen[i].bind : i \in 1..Len(m.gen)}
Bounds(m) == {m.gen[i].bound : i \in 1..Len(m.gen)}
BoundOf(m, b) == (CHOOSE g \in SeqSet(m.gen) : g.bind = b).bound

(* ModuleDef::required_symbols *)
Required(m) == (({s.typ : s \in SeqSet(m.subs)} \cup UNION {SeqSet(s.args) : s \in SeqSet(m.subs)}) \ Bindings(m))
               \cup Bounds(m) \cup (IF m.inherit = "" THEN {} ELSE {m.inherit})

(* the dependency ordering loop of transform: succeeds iff every module becomes resolvable *)
RECURSIVE Provided(_, _)
Provided(d, P) == LET P2 == P \cup {n \in Names(d) : Required(d.mods[n]) \subseteq P} IN IF P2 = P THEN P ELSE Provided(d, P2)
Resolvable(d) == Provided(d, {}) = Names(d)

Ok(v) == [ok |-> TRUE, v |-> v]
(* alts: the error classes of all faulty parts found at that level (which one is reported first is not specified: *)
(* submodules are kept in a hash map)                                                                            *)
Err(kind) == [ok |-> FALSE, err |-> kind, alts |-> {kind}]
IsErr(x) == ~x.ok

(* iter_for_kardinality_access: definition kardinality dk, accessor kardinality ak *)
Access(id, dk, ak) ==
  IF dk = Atom /\ ak = Atom THEN Ok(<<F(id, Atom)>>)
  ELSE IF dk # Atom /\ ak # Atom THEN (IF ak < dk THEN Ok(<<F(id, ak)>>) ELSE Err("index_out_of_bounds"))
  ELSE IF dk = Atom THEN Err("index_out_of_bounds")
  ELSE Ok([i \in 1..dk |-> F(id, i - 1)])

RECURSIVE Concat(_)
Concat(ss) == IF ss = <<>> THEN <<>> ELSE ss[1] \o Concat(Tail(ss))
Vals(xs) == [i \in 1..Len(xs) |-> xs[i].v]
FirstErr(xs) == LET bad == {i \in 1..Len(xs) : IsErr(xs[i])} IN
                IF bad = {} THEN <<>> ELSE <<xs[CHOOSE i \in bad : \A j \in bad : i <= j]>>

(* transform_connection_endpoint_inner: list of accessor paths or an error *)
RECURSIVE Resolve(_, _, _, _)
Resolve(prefix, acc, subs, gates) ==
  LET a == acc[1] IN
  IF Len(acc) = 1
  THEN IF ~\E g \in gates : g.id = a.id THEN Err("unknown_gate")
       ELSE LET gd == CHOOSE g \in gates : g.id = a.id
                r == Access(a.id, gd.k, a.k) IN
            IF IsErr(r) THEN r ELSE Ok([i \in 1..Len(r.v) |-> Append(prefix, r.v[i])])
  ELSE IF ~\E i \in 1..Len(subs) : subs[i].name.id = a.id THEN Err("unknown_submodule")
       ELSE LET sd == subs[CHOOSE i \in 1..Len(subs) : subs[i].name.id = a.id /\ \A j \in 1..(i - 1) : subs[j].name.id # a.id]
                r == Access(a.id, sd.name.k, a.k) IN
            IF IsErr(r) THEN r
            ELSE LET parts == [i \in 1..Len(r.v) |-> Resolve(Append(prefix, r.v[i]), Tail(acc), sd.node.subs, sd.node.gates)]
                     e == FirstErr(parts) IN
                 IF e # <<>> THEN e[1] ELSE Ok(Concat(Vals(parts)))

(* transform_connection *)
ConnOf(c, subs, gates, links) ==
  LET l == Resolve(<<>>, c.a, subs, gates) IN
  IF IsErr(l) THEN l
  ELSE LET r == Resolve(<<>>, c.b, subs, gates) IN
       IF IsErr(r) THEN r
       ELSE IF Len(l.v) # Len(r.v) THEN Err("unequal_peers")
       ELSE IF c.link # "" /\ c.link \notin links THEN Err("unknown_link")
       ELSE Ok([i \in 1..Len(l.v) |-> [a |-> l.v[i], b |-> r.v[i], link |-> c.link]])

(* Node::conform_to *)
Conform(n, iface) == /\ iface.gates \subseteq n.gates
                     /\ \A i \in 1..Len(iface.subs) : \E j \in 1..Len(n.subs) : n.subs[j] = iface.subs[i]
                     /\ \A i \in 1..Len(iface.conns) : \E j \in 1..Len(n.conns) : n.conns[j] = iface.conns[i]

(* transform_module for module name n of a resolvable description: Ok([node, gen]) or an error.         *)
(* "crash" marks the inputs on which the pinned code hit an assert / expect (D9): any error is accepted. *)
RECURSIVE Arch(_, _)
SubOf(d, m, s) ==
  IF s.k = 0 THEN Err("invalid_submodule")
  ELSE IF s.args = <<>>
  THEN LET tn == IF s.typ \in Bindings(m) THEN BoundOf(m, s.typ) ELSE s.typ
           dep == Arch(d, tn) IN
       IF IsErr(dep) THEN dep
       ELSE IF dep.v.gen # <<>> THEN Err("invalid_typ_statement")
       ELSE Ok([name |-> F(s.id, s.k), node |-> [dep.v.node EXCEPT !.typ = s.typ]])
  ELSE IF s.typ \in Bindings(m) THEN Err("crash")
  ELSE IF \E a \in SeqSet(s.args) : a \in Bindings(m) THEN Err("crash")      \* a binding of the enclosing module passed on as an argument
  ELSE LET base == Arch(d, s.typ) IN
       IF IsErr(base) THEN base
       ELSE IF Len(base.v.gen) # Len(s.args) THEN Err("invalid_typ_statement")
       ELSE LET repl == [i \in 1..Len(s.args) |-> Arch(d, s.args[i])]
                ifc == [i \in 1..Len(s.args) |-> Arch(d, base.v.gen[i].bound)]
                e == FirstErr(repl) IN
            IF e # <<>> THEN e[1]
            ELSE IF \E i \in 1..Len(repl) : repl[i].v.gen # <<>> THEN Err("crash")
            ELSE IF \E i \in 1..Len(repl) : ~Conform(repl[i].v.node, ifc[i].v.node) THEN Err("not_conform")
            ELSE LET swap(sm) == IF \E i \in 1..Len(repl) : sm.node.typ = base.v.gen[i].bind
                                 THEN [sm EXCEPT !.node = repl[CHOOSE i \in 1..Len(repl) : sm.node.typ = base.v.gen[i].bind].v.node]
                                 ELSE sm IN
                 Ok([name |-> F(s.id, s.k), node |-> [base.v.node EXCEPT !.subs = [j \in 1..Len(base.v.node.subs) |-> swap(base.v.node.subs[j])]]])

EmptyNode == [typ |-> "", gates |-> {}, subs |-> <<>>, conns |-> <<>>]
Arch(d, n) ==
  LET m == d.mods[n] IN
  IF \E i, j \in 1..Len(m.gen) : i # j /\ m.gen[i].bind = m.gen[j].bind THEN Err("symbol_already_defined")
  ELSE IF \E g \in SeqSet(m.gates) : g.k = 0 THEN Err("invalid_gate")
  ELSE LET subs0 == [i \in 1..Len(m.subs) |-> SubOf(d, m, m.subs[i])]
           e == FirstErr(subs0) IN
       IF e # <<>> THEN [e[1] EXCEPT !.alts = UNION {subs0[i].alts : i \in {j \in 1..Len(subs0) : IsErr(subs0[j])}}]
       ELSE LET par == IF m.inherit = "" THEN Ok([node |-> EmptyNode, gen |-> <<>>]) ELSE Arch(d, m.inherit) IN
            IF IsErr(par) THEN par
            ELSE IF par.v.gen # <<>> THEN Err("invalid_typ_statement")       \* a generic module cannot be inherited from
            (* inherited names must not be declared again (an identical gate declaration is harmless) *)
            ELSE IF \E g \in SeqSet(m.gates), h \in par.v.node.gates : g.id = h.id /\ g # h THEN Err("symbol_already_defined")
            ELSE IF \E i \in 1..Len(subs0), j \in 1..Len(par.v.node.subs) : subs0[i].v.name.id = par.v.node.subs[j].name.id THEN Err("symbol_already_defined")
            ELSE LET gates == SeqSet(m.gates) \cup par.v.node.gates
                     subs == Vals(subs0) \o par.v.node.subs
                     cs == [i \in 1..Len(m.conns) |-> ConnOf(m.conns[i], subs, gates, d.links)]
                     ce == FirstErr(cs) IN
                 IF ce # <<>> THEN ce[1]
                 ELSE Ok([node |-> [typ |-> n, gates |-> gates, subs |-> subs, conns |-> par.v.node.conns \o Concat(Vals(cs))], gen |-> m.gen])

(* the set of error classes the description exhibits (several if several modules are faulty) *)
ErrorsOf(d) == IF ~Resolvable(d) THEN {"unresolvable_dependency"}
               ELSE LET es == UNION {Arch(d, n).alts : n \in {x \in Names(d) : IsErr(Arch(d, x))}} IN
                    IF es # {} THEN es ELSE IF d.entry \notin Names(d) THEN {"unknown_module"}
                    ELSE IF Arch(d, d.entry).v.gen # <<>> THEN {"invalid_typ_statement"}      \* the entry module cannot be generic
                    ELSE {}

-----------------------------------------------------------------------------
(* flattening an elaborated node into module paths / gates / connections *)
Seg(f) == IF f.k = Atom THEN <<f.id, Atom>> ELSE <<f.id, f.k>>      \* one path segment: name or name[i]
Instances(name) == IF name.k = Atom THEN <<F(name.id, Atom)>> ELSE [i \in 1..name.k |-> F(name.id, i - 1)]

RECURSIVE FlatMods(_, _)
FlatMods(path, node) ==
  {[path |-> path, typ |-> node.typ, gates |-> node.gates]} \cup
  UNION {UNION {FlatMods(Append(path, Seg(Instances(node.subs[i].name)[j])), node.subs[i].node)
                  : j \in 1..Len(Instances(node.subs[i].name))} : i \in 1..Len(node.subs)}

PathOf(path, accs) == [mod |-> path \o [i \in 1..(Len(accs) - 1) |-> Seg(accs[i])], gate |-> Seg(accs[Len(accs)])]
RECURSIVE FlatConns(_, _)
FlatConns(path, node) ==
  {[a |-> PathOf(path, node.conns[i].a), b |-> PathOf(path, node.conns[i].b), link |-> node.conns[i].link] : i \in 1..Len(node.conns)} \cup
  UNION {UNION {FlatConns(Append(path, Seg(Instances(node.subs[i].name)[j])), node.subs[i].node)
                  : j \in 1..Len(Instances(node.subs[i].name))} : i \in 1..Len(node.subs)}

(* the wiring can be built with gates: nobody connected to itself or to more than two peers *)
Ends(C) == {c.a : c \in C} \cup {c.b : c \in C}
PeersOf(C, g) == {c.b : c \in {x \in C : x.a = g}} \cup {c.a : c \in {x \in C : x.b = g}}
Realisable(C) == \A g \in Ends(C) : g \notin PeersOf(C, g) /\ Cardinality(PeersOf(C, g)) <= 2
                 /\ Cardinality({c \in C : c.a = g \/ c.b = g}) = Cardinality(PeersOf(C, g))   \* no repeated pair

Elab(d) == LET es == ErrorsOf(d) IN
           IF es # {} THEN [ok |-> FALSE, errors |-> es]
           ELSE LET root == Arch(d, d.entry).v.node
                    C == FlatConns(<<>>, root) IN
                [ok |-> TRUE, errors |-> {}, modules |-> FlatMods(<<>>, root), conns |-> C, realisable |-> Realisable(C)]
=============================================================================
