------------------------------ MODULE Gen_Body ------------------------------
EXTENDS Body, Json
VARIABLE hist
GInit == Init /\ hist = <<>>
GNext == Next /\ hist' = Append(hist, bret')
GSpec == GInit /\ [][GNext]_<<bvars, hist>>
Emit == (nops = MaxOps) => PrintT(<<"REPLAY", ToJson(hist)>>)
=============================================================================
