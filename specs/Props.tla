------------------------------- MODULE Props -------------------------------
(***************************************************************************)
(* C17: which configuration entries reach which module, and the typing     *)
(* discipline of a property slot.                                          *)
(*                                                                         *)
(* Part 1 (matching) is a definition: an entry with key K (dotted key      *)
(* split into segments) addresses module path P with property name N iff   *)
(*   K = P' \o N,  Len(P') = Len(P),  every P'[i] is P[i] or "<any>",      *)
(*   N is non-empty and contains no "<any>".                               *)
(* Names are compared as whole segments: a textual prefix is not a match.  *)
(*                                                                         *)
(* Part 2 (typing) is the state machine in PropSlot.tla.                   *)
(***************************************************************************)
EXTENDS Naturals, Sequences, FiniteSets, TLC

ANY == "<any>"

---------------------------------------------------------------------------
(* Part 1 *)
CONSTANTS Segs,      \* segment alphabet for keys (module names, property names, ANY)
          Names,     \* module names used in paths
          MaxKeyLen, MaxEntries, MaxDepth

VARIABLES cfg        \* set of [k |-> key segments, v |-> value id]

Keys == UNION {[1..n -> Segs] : n \in 2..MaxKeyLen}
GoodKey(k) == k[Len(k)] # ANY                      \* the last segment is a property name
Paths == UNION {[1..n -> Names] : n \in 1..MaxDepth}

SegMatch(ks, ps) == ks = ps \/ ks = ANY
Matches(k, p) == /\ Len(k) > Len(p)
                 /\ \A i \in 1..Len(p) : SegMatch(k[i], p[i])
                 /\ \A i \in (Len(p) + 1)..Len(k) : k[i] # ANY
PropName(k, p) == SubSeq(k, Len(p) + 1, Len(k))

(* expected property set of module p: name -> set of admissible values *)
ExpectedNames(c, p) == {PropName(e.k, p) : e \in {x \in c : Matches(x.k, p)}}
ExpectedVals(c, p, n) == {e.v : e \in {x \in c : Matches(x.k, p) /\ PropName(x.k, p) = n}}
Expected(c, p) == {[name |-> n, vals |-> ExpectedVals(c, p, n)] : n \in ExpectedNames(c, p)}

(* configurations are built entry by entry; the value of an entry is its insertion rank, so that  *)
(* the harness can tell which entry provided a value                                              *)
CfgInit == cfg = {}
CfgNext == /\ Cardinality(cfg) < MaxEntries
           /\ \E k \in {q \in Keys : GoodKey(q)} :
                /\ \A e \in cfg : e.k # k
                /\ cfg' = cfg \cup {[k |-> k, v |-> Cardinality(cfg) + 1]}
CfgSpec == CfgInit /\ [][CfgNext]_cfg

(* sanity theorems about the definition (checked by TLC over all configurations in the bound) *)
AnyIsOneSegment == \A e \in cfg : \A p \in Paths : Matches(e.k, p) => Len(p) < Len(e.k)
NoPrefixLeak == \A e \in cfg : \A p \in Paths :
                  Matches(e.k, p) => \A i \in 1..Len(p) : e.k[i] \in {p[i], ANY}
ExactKeyMatchesItsPath == \A e \in cfg : \A n \in 1..(Len(e.k) - 1) :
                  (\A i \in 1..Len(e.k) : e.k[i] # ANY) /\ SubSeq(e.k, 1, n) \in Paths
                     => Matches(e.k, SubSeq(e.k, 1, n))

=============================================================================
