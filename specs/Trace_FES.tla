---------------------------- MODULE Trace_FES ----------------------------
(* Direction V: validate an ndjson log recorded from the real CQueue       *)
(* against the contract.  One line per public call at its return; runs     *)
(* are separated by "reset" lines.                                         *)
EXTENDS FES, Json, IOUtils
Rec == ndJsonDeserialize(IOEnv.TRACE)
VARIABLE l
tvars == <<fvars, l>>
Ev == Rec[l]
TInit == Init /\ l = 1
Bind == /\ ret'.op = Ev.op
        /\ IF Ev.op = "add" THEN ret'.res = Ev.res /\ ret'.len = Ev.len /\ ret'.time = Ev.time /\ (Ev.res = "ok" => ret'.id = Ev.id)
           ELSE IF Ev.op = "fetch" THEN ret'.id = Ev.id /\ ret'.t = Ev.t /\ ret'.len = Ev.len /\ ret'.time = Ev.time
           ELSE IF Ev.op = "cancel" THEN ret'.len = Ev.len /\ ret'.time = Ev.time
           ELSE ret'.dropped = {Ev.dropped[k] : k \in 1..Len(Ev.dropped)}
TReset == /\ Ev.op = "reset"
          /\ pending' = {} /\ cur' = 0 /\ nid' = 0 /\ held' = {}
          /\ pay' = [i \in Ids |-> "none"] /\ ret' = [op |-> "init"]
TStep == \/ (Ev.op = "add" /\ Add(Ev.t) /\ Bind)
         \/ (Ev.op = "fetch" /\ Fetch /\ Bind)
         \/ (Ev.op = "cancel" /\ Cancel(Ev.id) /\ Bind)
         \/ (Ev.op = "dropall" /\ DropAll /\ Bind)
         \/ TReset
TNext == l <= Len(Rec) /\ l' = l + 1 /\ TStep
TSpec == TInit /\ [][TNext]_tvars
Accepted == IF TLCGet("stats").diameter - 1 = Len(Rec) THEN TRUE
            ELSE Print(<<"REJECTED", TLCGet("stats").diameter>>, FALSE)
=============================================================================
