--------------------------- MODULE Trace_Runtime ---------------------------
(* Direction V for Runtime.tla: long random programs with random step schedules and external adds, *)
(* recorded from the real Runtime (one line per public call / handler invocation), validated line  *)
(* by line against the contract.                                                                   *)
EXTENDS Runtime, Json, IOUtils
Rec == ndJsonDeserialize(IOEnv.TRACE)
VARIABLE l
tvars == <<rvars, l>>
Ev == Rec[l]
RECURSIVE LimitOf(_)
LimitOf(j) == CASE j.k = "none" -> [k |-> "none"]
                [] j.k = "ec" -> [k |-> "ec", n |-> j.n]
                [] j.k = "st" -> [k |-> "st", t |-> j.t]
                [] OTHER -> [k |-> j.k, l |-> LimitOf(j.l), r |-> LimitOf(j.r)]
IsHeap == "backend" \in DOMAIN Ev /\ Ev.backend = "heap"     \* recorded from the BinaryHeap backend (see HeapInit)
TReset == /\ Ev.op = "cfg"
          /\ cur' = (IF IsHeap THEN Ev.start ELSE 0) /\ itr' = 0 /\ phase' = "ready" /\ mode' = [k |-> "idle"] /\ nsteps' = 0 /\ next' = 0
          /\ now' = Ev.start /\ limit' = LimitOf(Ev.limit)
          /\ pending' = IF Ev.seed THEN {[id |-> 0, t |-> Ev.start, cls |-> IF Ev.start = 0 \/ IsHeap THEN 0 ELSE 1]} ELSE {}
          /\ nid' = IF Ev.seed THEN 1 ELSE 0
          /\ ret' = [op |-> "cfg"]
TStep == \/ TReset
         \/ (Ev.op = "add_ext" /\ AddExt(Ev.t) /\ ret'.res = Ev.res /\ ret'.remaining = Ev.remaining /\ (Ev.res = "ok" => ret'.id = Ev.id))
         \/ (Ev.op = "start" /\ Start)
         \/ (Ev.op = "step_n" /\ BeginN(Ev.n))
         \/ (Ev.op = "step_until" /\ BeginUntil(Ev.t))
         \/ (Ev.op = "step_all" /\ BeginAll)
         \/ (Ev.op = "handle" /\ DispatchWith(Ev.reqs) /\ ret'.id = Ev.id /\ ret'.t = Ev.t /\ ret'.ids = Ev.ids)
         \/ (Ev.op = "end_step" /\ EndStep /\ ret'.dispatched = Ev.dispatched /\ ret'.remaining = Ev.remaining /\ ret'.sim_time = Ev.sim_time)
         \/ (Ev.op = "finish" /\ Finish /\ ret'.time = Ev.time /\ ret'.event_count = Ev.event_count
              /\ ret'.remaining = {<<Ev.remaining[i][1], Ev.remaining[i][2]>> : i \in 1..Len(Ev.remaining)}
              /\ Len(Ev.remaining) = Cardinality(ret'.remaining))
TInit == /\ l = 1 /\ pending = {} /\ cur = 0 /\ now = 0 /\ itr = 0 /\ nid = 0 /\ phase = "done" /\ mode = [k |-> "idle"]
         /\ limit = [k |-> "none"] /\ nsteps = 0 /\ next = 0 /\ ret = [op |-> "none"]
TNext == l <= Len(Rec) /\ l' = l + 1 /\ TStep
TSpec == TInit /\ [][TNext]_tvars
Accepted == IF TLCGet("stats").diameter - 1 = Len(Rec) THEN TRUE
            ELSE Print(<<"REJECTED", TLCGet("stats").diameter>>, FALSE)
=============================================================================
