------------------------------- MODULE MC_Net -------------------------------
(* Topologies, channel tables and handler menus for model checking / generation of Net.tla. *)
EXTENDS Net

Cmd(c, g, d, size, eat) == [c |-> c, g |-> g, d |-> d, size |-> size, eat |-> eat]
Send(g, size)      == Cmd("send", g, 0, size, 0)
SendEat(g, eat)    == Cmd("send", g, 0, 1, eat)
SendIn(g, d, size) == Cmd("sendin", g, d, size, 0)
Sched(d)           == Cmd("sched", "", d, 1, 0)
SchedEat(d, eat)   == Cmd("sched", "", d, 1, eat)
ShutdownC          == Cmd("shutdown", "", 0, 1, 0)
RestartC(d)        == Cmd("restart", "", d, 1, 0)
PanicC             == Cmd("panic", "", 0, 1, 0)
SetCatch(b)        == Cmd("setcatch", "", b, 1, 0)

(* T1: a.out --ch1--> b.in ; b.out --> a.in (no channel) *)
ModsAB == <<"a", "b">>
RouteT1 == [ao |-> <<[own |-> "b", ch |-> 1]>>, bo |-> <<[own |-> "a", ch |-> 0]>>]
OwnerT1 == [ao |-> "a", bo |-> "b"]
(* T2: T1 plus a.o2 --> c.t --ch2--> b.i2 (c.t is a transit gate of module c) *)
ModsABC == <<"a", "b", "c">>
RouteT2 == [ao |-> <<[own |-> "b", ch |-> 1]>>, bo |-> <<[own |-> "a", ch |-> 0]>>,
            at |-> <<[own |-> "c", ch |-> 0], [own |-> "b", ch |-> 2]>>]
OwnerT2 == [ao |-> "a", bo |-> "b", at |-> "a"]
(* T1R: T1 plus the reverse direction of the a.out -- b.in connection: b may send on its gate "in"; the reverse   *)
(* direction has its own channel instance (3) with the same parameters                                          *)
RouteT1R == [ao |-> <<[own |-> "b", ch |-> 1]>>, bo |-> <<[own |-> "a", ch |-> 0]>>, bi |-> <<[own |-> "a", ch |-> 3]>>]
OwnerT1R == [ao |-> "a", bo |-> "b", bi |-> "b"]
(* T3: like T2 but the channel lies BEFORE the transit gate: a.o2 --ch2--> c.t --> b.i2 (a message can be in flight *)
(* towards the transit module when that module goes down or comes back)                                             *)
RouteT3 == [ao |-> <<[own |-> "b", ch |-> 1]>>, bo |-> <<[own |-> "a", ch |-> 0]>>,
            at |-> <<[own |-> "c", ch |-> 2], [own |-> "b", ch |-> 0]>>]
OwnerT3 == OwnerT2

One(x) == [m \in {"a", "b", "c"} |-> x]
One0 == One(0)
One1 == One(1)
One2 == One(2)
OneF == One(FALSE)
OneT == One(TRUE)
Bytes3 == [s \in 1..3 |-> 64 * s]
BytesFast == [s \in 1..3 |-> IF s = 1 THEN 64 ELSE IF s = 2 THEN 100 ELSE 264]
TxLin == [c \in {1, 2, 3} |-> [s \in 1..3 |-> s]]                 \* 64 bytes per tick
TxFast == [c \in {1, 2, 3} |-> [s \in 1..3 |-> IF s = 3 THEN 1 ELSE 0]]   \* transmission time rounds to zero for small messages
TxZero == [c \in {1, 2, 3} |-> [s \in 1..3 |-> 0]]                \* bitrate 0 = unlimited
Lat1 == [c \in {1, 2, 3} |-> 1]
Lat0 == [c \in {1, 2, 3} |-> 0]
PolDrop == [c \in {1, 2, 3} |-> "drop"]
PolQueue == [c \in {1, 2, 3} |-> "queue"]
LimNone == [c \in {1, 2, 3} |-> -1]
Lim128 == [c \in {1, 2, 3} |-> 128]
Lim0 == [c \in {1, 2, 3} |-> 0]
Lim200 == [c \in {1, 2, 3} |-> 200]

(* ---- menus ---- *)
Quiet == [m \in {"a", "b", "c"} |-> {<<>>}]
(* C07: a sends bursts into the channel, b just receives; a re-arms itself to send again later *)
MenuChanA == {<<>>, <<Send("ao", 1)>>, <<Send("ao", 2), Send("ao", 1)>>, <<Send("ao", 1), Send("ao", 1), Send("ao", 3)>>,
              <<Send("ao", 3), Sched(1)>>, <<Sched(2), Send("ao", 1)>>, <<SendIn("ao", 1, 2), Send("ao", 1)>>,
              <<Send("ao", 3), Send("ao", 1), Send("ao", 1), Send("ao", 1)>>}
MenuChan == [m \in {"a", "b", "c"} |-> IF m = "a" THEN MenuChanA ELSE {<<>>}]
StartChan == [m \in {"a", "b", "c"} |-> IF m = "a" THEN MenuChanA ELSE {<<>>}]
(* C07 / C08: both ends of one connection send; each direction has its own busy state and queue *)
MenuBidirA == {<<>>, <<Send("ao", 1)>>, <<Send("ao", 2), Send("ao", 1)>>, <<Send("ao", 3), Sched(1)>>, <<Sched(2), Send("ao", 1)>>}
MenuBidirB == {<<>>, <<Send("bi", 1)>>, <<Send("bi", 2), Send("bi", 1)>>, <<Sched(1), Send("bi", 3)>>, <<SendIn("bi", 1, 2)>>}
MenuBidir == [m \in {"a", "b", "c"} |-> IF m = "a" THEN MenuBidirA ELSE IF m = "b" THEN MenuBidirB ELSE {<<>>}]
StartBidir == [m \in {"a", "b", "c"} |-> IF m = "a" THEN {<<Send("ao", 2), Sched(1)>>, <<Send("ao", 1)>>} ELSE IF m = "b" THEN {<<Send("bi", 2), Sched(1)>>, <<Sched(1)>>} ELSE {<<>>}]
(* C09: lifecycle *)
MenuLifeA == {<<>>, <<Send("ao", 1)>>, <<Send("ao", 1), Sched(1)>>, <<Sched(2)>>}
MenuLifeB == {<<>>, <<Send("bo", 1)>>, <<ShutdownC>>, <<RestartC(2)>>, <<Send("bo", 1), RestartC(1)>>, <<Sched(1), ShutdownC>>, <<RestartC(0)>>}
MenuLife == [m \in {"a", "b", "c"} |-> IF m = "a" THEN MenuLifeA ELSE IF m = "b" THEN MenuLifeB ELSE {<<>>}]
StartLife == [m \in {"a", "b", "c"} |-> IF m = "a" THEN {<<Send("ao", 1), Sched(1)>>, <<Sched(1)>>} ELSE {<<>>, <<Sched(2)>>, <<Send("bo", 1)>>}]
(* C09 with a transit module that goes down *)
MenuTransA == {<<>>, <<Send("at", 1)>>, <<Send("at", 1), Sched(1)>>, <<SendIn("at", 1, 1)>>}
MenuTransC == {<<>>, <<ShutdownC>>, <<RestartC(2)>>}
MenuTrans == [m \in {"a", "b", "c"} |-> IF m = "a" THEN MenuTransA ELSE IF m = "c" THEN MenuTransC ELSE {<<>>}]
StartTrans == [m \in {"a", "b", "c"} |-> IF m = "a" THEN {<<Send("at", 1), Sched(1)>>} ELSE IF m = "c" THEN {<<>>, <<Sched(1)>>, <<Sched(2)>>} ELSE {<<>>}]
(* bursts over the transit path: the channel of the second hop (T2) / in front of the transit gate (T3) ends with a backlog *)
MenuTBurstA == {<<>>, <<Send("at", 2), Send("at", 1), Sched(1)>>, <<Send("at", 1), Send("at", 1), Send("at", 1)>>, <<SendIn("at", 1, 1)>>}
MenuTBurst == [m \in {"a", "b", "c"} |-> IF m = "a" THEN MenuTBurstA ELSE IF m = "c" THEN MenuTransC ELSE {<<>>}]
StartTBurst == [m \in {"a", "b", "c"} |-> IF m = "a" THEN {<<Send("at", 2), Send("at", 1), Send("at", 1), Sched(1)>>} ELSE IF m = "c" THEN {<<>>, <<Sched(2)>>} ELSE {<<>>}]
(* C13: panics *)
MenuPanicA == {<<>>, <<Send("ao", 1)>>, <<Send("ao", 1), Sched(1)>>, <<PanicC>>, <<Send("ao", 1), PanicC>>}
MenuPanicB == {<<>>, <<Send("bo", 1)>>, <<PanicC>>, <<Send("bo", 1), Sched(1), PanicC>>, <<Sched(1)>>,
               <<SetCatch(1), PanicC>>, <<SetCatch(0), Send("bo", 1), PanicC>>}
MenuPanic == [m \in {"a", "b", "c"} |-> IF m = "a" THEN MenuPanicA ELSE IF m = "b" THEN MenuPanicB ELSE {<<>>}]
StartPanic == [m \in {"a", "b", "c"} |-> IF m = "a" THEN {<<Send("ao", 1), Sched(1)>>, <<PanicC>>, <<Sched(1)>>} ELSE {<<>>, <<Sched(1)>>, <<PanicC>>}]
(* C13 x C09: a panic in an event in which the module has asked for shutdown / restart, or while its restart is scheduled *)
MenuPanicShutA == {<<>>, <<Send("ao", 1)>>, <<Sched(1)>>, <<PanicC>>, <<RestartC(1), PanicC>>, <<ShutdownC, PanicC>>, <<RestartC(2)>>,
                   <<SetCatch(1), Send("ao", 1), RestartC(1), PanicC>>}
MenuPanicShutB == {<<>>, <<Send("bo", 1)>>, <<Sched(1)>>}
MenuPanicShut == [m \in {"a", "b", "c"} |-> IF m = "a" THEN MenuPanicShutA ELSE IF m = "b" THEN MenuPanicShutB ELSE {<<>>}]
StartPanicShut == [m \in {"a", "b", "c"} |-> IF m = "a" THEN {<<Send("ao", 1), Sched(1)>>, <<RestartC(1)>>, <<PanicC>>, <<SetCatch(1), PanicC>>, <<Sched(1)>>}
                                              ELSE {<<>>, <<Sched(1)>>}]
(* C14: processing elements; `eat` = index (1-based) of the element that consumes the message *)
MenuPEA == {<<>>, <<SendEat("ao", 10)>>, <<SendEat("ao", 10), SendEat("ao", 2)>>, <<SendEat("ao", 0)>>, <<SendEat("ao", 1), SendEat("ao", 2)>>, <<SchedEat(1, 0), SendEat("ao", 2)>>, <<SchedEat(1, 1)>>, <<SchedEat(0, 2), SchedEat(0, 0)>>, <<SchedEat(1, 10)>>}
MenuPEB == {<<>>, <<SendEat("bo", 0)>>, <<SendEat("bo", 1)>>, <<SendEat("bo", 2), SchedEat(1, 0)>>}
MenuPE == [m \in {"a", "b", "c"} |-> IF m = "a" THEN MenuPEA ELSE IF m = "b" THEN MenuPEB ELSE {<<>>}]
StartPE == [m \in {"a", "b", "c"} |-> IF m = "a" THEN {<<SendEat("ao", 0), SchedEat(1, 1)>>, <<SchedEat(0, 2), SendEat("ao", 1)>>} ELSE {<<>>}]
(* C03 at net level: one handler emits a long burst of messages for two future instants, not in time order *)
Burst24 == [i \in 1..96 |-> IF i % 3 = 0 THEN Send("ao", 1) ELSE Sched(IF i % 2 = 0 THEN 1 ELSE 2)]
Burst6 == [i \in 1..6 |-> IF i % 2 = 0 THEN Sched(1) ELSE Send("ao", 1)]
MenuBurstA == {<<>>, Burst24, Burst6, <<Sched(1), Sched(1), Send("ao", 2)>>}
MenuBurst == [m \in {"a", "b", "c"} |-> IF m = "a" THEN MenuBurstA ELSE {<<>>, <<Send("bo", 1), Send("bo", 1)>>}]
StartBurst == [m \in {"a", "b", "c"} |-> IF m = "a" THEN {Burst24, Burst6} ELSE {<<>>}]
Stack2 == [m \in {"a", "b", "c"} |-> 2]
(* C04, design level: with the scripts fixed (singleton menus) the interpreter has exactly one behaviour *)
MenuDet == [m \in {"a", "b", "c"} |-> IF m = "a" THEN {<<Send("ao", 2), Sched(1), Send("at", 1)>>} ELSE IF m = "b" THEN {<<Send("bo", 1)>>} ELSE {<<Sched(2)>>}]
StartDet == [m \in {"a", "b", "c"} |-> IF m = "a" THEN {<<Send("ao", 1), Send("ao", 3), Sched(1)>>} ELSE {<<Sched(1)>>}]
NoReplay == <<>>
NoInject == <<>>
Inj(k, m, g, t, size, eat) == [k |-> k, m |-> m, g |-> g, t |-> t, size |-> size, eat |-> eat]
(* before the run: two messages straight to b (one for time 0), one onto a's output gate at time 1 (through the channel), *)
(* one to a at the time its first self-message may arrive, one onto b's output gate at time 0                              *)
InjectMix == <<Inj("msg", "b", "", 2, 1, 0), Inj("exit", "", "ao", 1, 2, 0), Inj("msg", "b", "", 0, 1, 0),
               Inj("msg", "a", "", 1, 1, 0), Inj("exit", "", "bo", 0, 1, 0)>>
Stack3 == [m \in {"a", "b", "c"} |-> 3]
NoEndFail == {}
EndFailA == {"a"}
Stack012 == [m \in {"a", "b", "c"} |-> IF m = "a" THEN 1 ELSE IF m = "b" THEN 2 ELSE 0]
Stages212 == [m \in {"a", "b", "c"} |-> IF m = "b" THEN 1 ELSE 2]
CatchB == [m \in {"a", "b", "c"} |-> m = "b"]
=============================================================================
