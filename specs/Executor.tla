------------------------------ MODULE Executor ------------------------------
(***************************************************************************)
(* Mechanism layer for C06: how one module event drives the module's tasks *)
(* (des/src/net/runtime/unwind.rs `Harness::exec` on a current-thread      *)
(* tokio runtime): the event's main future runs the handler, yields once,  *)
(* and the scheduler polls runnable tasks.  After `Budget` task polls the  *)
(* scheduler hands control back (event_interval for tokio::spawn tasks,    *)
(* LocalSet's MAX_TASKS_PER_TICK for spawn_local tasks); the main future   *)
(* is polled again, has nothing left to do and the event ends - with       *)
(* whatever is still queued.  Budget = 0 models "no limit" (the repair     *)
(* event_interval(u32::MAX)).                                              *)
(* Invariant QuiescentAtEventEnd: no task is runnable between events.      *)
(***************************************************************************)
EXTENDS Naturals, Sequences, FiniteSets, TLC

CONSTANTS NTasks, Budget, Wakes    \* Wakes: [task -> set of tasks it wakes when polled]

VARIABLES queue,     \* run queue (sequence of task ids)
          polled,    \* task polls in the current scheduler tick
          phase,     \* "idle" | "handler" | "tasks" | "main_again"
          done       \* tasks that ran

evars == <<queue, polled, phase, done>>
Tasks == 1..NTasks

SetToSeq(S) == CHOOSE s \in [1..Cardinality(S) -> S] : \A i, j \in 1..Cardinality(S) : i # j => s[i] # s[j]

Init == queue = <<>> /\ polled = 0 /\ phase = "idle" /\ done = {}

(* an event arrives: the handler (or the timer driver) makes a set of tasks runnable, then the main future yields *)
Event == /\ phase = "idle"
         /\ \E S \in SUBSET Tasks : S # {} /\ S \cap done = {} /\
              queue' = queue \o SetToSeq(S)
         /\ phase' = "tasks" /\ polled' = 0 /\ UNCHANGED done

PollTask == /\ phase = "tasks" /\ queue # <<>> /\ (Budget = 0 \/ polled < Budget)
            /\ LET t == Head(queue)
                   woken == SetToSeq({u \in Wakes[t] : u \notin done /\ u # t /\ ~\E i \in 1..Len(queue) : queue[i] = u}) IN
               /\ queue' = Tail(queue) \o woken
               /\ done' = done \cup {t} /\ polled' = polled + 1
            /\ UNCHANGED phase
(* run queue empty, or budget used up: control returns to the main future, which completes: the event ends *)
EndEvent == /\ phase = "tasks" /\ (queue = <<>> \/ (Budget > 0 /\ polled >= Budget))
            /\ phase' = "idle" /\ UNCHANGED <<queue, polled, done>>

Next == Event \/ PollTask \/ EndEvent
Spec == Init /\ [][Next]_evars

QuiescentAtEventEnd == phase = "idle" => queue = <<>>
=============================================================================
