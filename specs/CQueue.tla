------------------------------ MODULE CQueue ------------------------------
(***************************************************************************)
(* Mechanism layer: the calendar queue of des-cqueue/src/stable/mod.rs,    *)
(* transcribed action by action (one action per public method, the scan    *)
(* loop of fetch_next as a recursive operator that follows the code).      *)
(*                                                                         *)
(* Checked: structural invariants + refinement of the contract FES for     *)
(* every (N, W) in the bound.  FixD1 = FALSE transcribes the pinned        *)
(* `cancel` (defect D1), FixD1 = TRUE the repaired one.                    *)
(***************************************************************************)
EXTENDS Naturals, Sequences, FiniteSets, TLC, SequencesExt

CONSTANTS N,        \* number of buckets  (CQueue::new(n, _))
          W,        \* bucket width in ticks (CQueue::new(_, t))
          Times, MaxId, FixD1

VARIABLES buckets,  \* [0..N-1 -> Seq([id, t])]   DualLinkedList per bucket, in list order
          zero,     \* Seq([id, t])                zero_event_bucket
          head, t0, t1, tcur, clen,
          nid,      \* event_id
          held,     \* ghost: ids whose handle is still held by the client
          htime,    \* ghost: EventHandle.time
          pay,      \* ghost: payload status (for the refinement mapping)
          out       \* observable result of the last call

vars == <<buckets, zero, head, t0, t1, tcur, clen, nid, held, htime, pay, out>>

Ids == 0..MaxId

Idx(t) == ((t % (N * W)) \div W) % N

(* DualLinkedList::add walks from the tail while cur.time > t, i.e. the    *)
(* node is inserted after the last element with time <= t (stable).        *)
InsPos(s, t) == Cardinality({i \in 1..Len(s) : s[i].t <= t}) + 1

HasId(s, i) == \E k \in 1..Len(s) : s[k].id = i
Without(s, i) == SelectSeq(s, LAMBDA e : e.id # i)

Init == /\ buckets = [b \in 0..N-1 |-> <<>>] /\ zero = <<>>
        /\ head = 0 /\ t0 = 0 /\ t1 = W /\ tcur = 0 /\ clen = 0 /\ nid = 0
        /\ held = {} /\ htime = [i \in Ids |-> 0]
        /\ pay = [i \in Ids |-> "none"]
        /\ out = [op |-> "init"]

Add(t) ==
  /\ nid <= MaxId
  /\ IF t >= tcur
     THEN /\ clen' = clen + 1 /\ nid' = nid + 1
          /\ held' = held \cup {nid} /\ htime' = [htime EXCEPT ![nid] = t]
          /\ pay' = [pay EXCEPT ![nid] = "queued"]
          /\ IF t = tcur
             THEN zero' = Append(zero, [id |-> nid, t |-> t]) /\ UNCHANGED buckets
             ELSE /\ buckets' = [buckets EXCEPT ![Idx(t)] = InsertAt(@, InsPos(@, t), [id |-> nid, t |-> t])]
                  /\ UNCHANGED zero
          /\ out' = [op |-> "add", t |-> t, res |-> "ok", id |-> nid, len |-> clen + 1, time |-> tcur]
          /\ UNCHANGED <<head, t0, t1, tcur>>
     ELSE /\ out' = [op |-> "add", t |-> t, res |-> "panic", id |-> 0, len |-> clen, time |-> tcur]
          /\ UNCHANGED <<buckets, zero, head, t0, t1, tcur, clen, nid, held, htime, pay>>

(* cancel(handle): handle.time >= t_current guards everything; equal time  *)
(* looks in the zero bucket (pinned: only there).                          *)
Cancel(i) ==
  /\ i \in held
  /\ held' = held \ {i}
  /\ LET ht == htime[i]
         inZero == HasId(zero, i)
         inBucket == HasId(buckets[Idx(ht)], i)
         fromZero == ht >= tcur /\ ht = tcur /\ inZero
         fromBucket == \/ (ht > tcur /\ inBucket)
                       \/ (FixD1 /\ ht = tcur /\ ~inZero /\ inBucket)
     IN /\ IF fromZero
           THEN /\ zero' = Without(zero, i) /\ UNCHANGED buckets
           ELSE IF fromBucket
                THEN /\ buckets' = [buckets EXCEPT ![Idx(ht)] = Without(@, i)] /\ UNCHANGED zero
                ELSE UNCHANGED <<zero, buckets>>
        /\ clen' = IF fromZero \/ fromBucket THEN clen - 1 ELSE clen
        /\ pay' = IF fromZero \/ fromBucket THEN [pay EXCEPT ![i] = "dropped"] ELSE pay
        /\ out' = [op |-> "cancel", id |-> i, len |-> clen', time |-> tcur]
  /\ UNCHANGED <<head, t0, t1, tcur, nid, htime>>

(* the scan loop of fetch_next, literally:                                 *)
(*   loop { while bucket[head] empty {advance};                            *)
(*          if front > t1 {advance; continue}; pop }                       *)
RECURSIVE Scan(_, _, _)
Scan(h, a, b) == IF buckets[h] = <<>> THEN Scan((h + 1) % N, a + W, b + W)
                 ELSE IF buckets[h][1].t > b THEN Scan((h + 1) % N, a + W, b + W)
                 ELSE <<h, a, b>>

Fetch ==
  /\ clen > 0
  /\ IF zero # <<>>
     THEN /\ out' = [op |-> "fetch", id |-> zero[1].id, t |-> zero[1].t, len |-> clen - 1, time |-> tcur]
          /\ pay' = [pay EXCEPT ![zero[1].id] = "returned"]
          /\ zero' = Tail(zero) /\ clen' = clen - 1
          /\ UNCHANGED <<buckets, head, t0, t1, tcur>>
     ELSE LET r == Scan(head, t0, t1)
              e == buckets[r[1]][1] IN
          /\ head' = r[1] /\ t0' = r[2] /\ t1' = r[3]
          /\ tcur' = e.t
          /\ out' = [op |-> "fetch", id |-> e.id, t |-> e.t, len |-> clen - 1, time |-> e.t]
          /\ pay' = [pay EXCEPT ![e.id] = "returned"]
          /\ buckets' = [buckets EXCEPT ![r[1]] = Tail(@)]
          /\ clen' = clen - 1 /\ UNCHANGED zero
  /\ UNCHANGED <<nid, held, htime>>

AllIds == {zero[k].id : k \in 1..Len(zero)} \cup
          UNION {{buckets[b][k].id : k \in 1..Len(buckets[b])} : b \in 0..N-1}

DropAll ==
  /\ out.op # "dropall"
  /\ out' = [op |-> "dropall", dropped |-> AllIds]
  /\ pay' = [i \in Ids |-> IF i \in AllIds THEN "dropped" ELSE pay[i]]
  /\ buckets' = [b \in 0..N-1 |-> <<>>] /\ zero' = <<>> /\ clen' = 0 /\ held' = {}
  /\ UNCHANGED <<head, t0, t1, tcur, nid, htime>>

Alive == out.op # "dropall"
Next == Alive /\ ((\E t \in Times : Add(t)) \/ Fetch \/ (\E i \in Ids : Cancel(i)) \/ DropAll)
Spec == Init /\ [][Next]_vars

-----------------------------------------------------------------------------
(* Refinement mapping to the contract.                                     *)
AllNodes == {[id |-> zero[k].id, t |-> zero[k].t, cls |-> 0] : k \in 1..Len(zero)} \cup
            UNION {{[id |-> buckets[b][k].id, t |-> buckets[b][k].t, cls |-> 1]
                        : k \in 1..Len(buckets[b])} : b \in 0..N-1}

F == INSTANCE FES WITH pending <- AllNodes, cur <- tcur, ret <- out
Refines == F!Spec

(* Structural invariants of the mechanism.                                 *)
LenOK    == clen = Cardinality(AllNodes)
Sorted   == \A b \in 0..N-1 : \A k \in 1..Len(buckets[b])-1 : buckets[b][k].t <= buckets[b][k+1].t
InBucket == \A b \in 0..N-1 : \A k \in 1..Len(buckets[b]) : Idx(buckets[b][k].t) = b
ZeroAtCur == \A k \in 1..Len(zero) : zero[k].t = tcur
NoPast   == \A e \in AllNodes : e.t >= tcur
Window   == t1 = t0 + W /\ t0 <= tcur /\ head = (t0 \div W) % N
=============================================================================
