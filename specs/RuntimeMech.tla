---------------------------- MODULE RuntimeMech ----------------------------
(***************************************************************************)
(* Mechanism layer for C10 / C11: Runtime::dispatch_event over the event   *)
(* set, transcribed from des/src/runtime/mod.rs.                           *)
(*   Fixed = FALSE: the pinned code - fetch the next event, test the limit,*)
(*                  and re-insert the event if the limit applies           *)
(*   Fixed = TRUE : the repair - peek the timestamp, test, then fetch      *)
(* The event set is the contract FES (CQueue refines it): an event added   *)
(* for the current queue time goes to the zero-delay class (cls 0) and     *)
(* gets a fresh sequence number.                                           *)
(* Checked: what C10 states about pausing - the order of the remaining     *)
(* events (by their *scheduling* order `ev`) and the queue time are not    *)
(* disturbed by a call that stops at a limit.                              *)
(***************************************************************************)
EXTENDS Naturals, FiniteSets, Sequences, TLC

CONSTANTS Fixed, MaxEv, MaxT, MaxCalls

VARIABLES pending,   \* set of [ev, t, cls, seq]: ev = scheduling order (identity), seq = insertion order in the queue
          cur,       \* queue time (t_current)
          now,       \* SimTime::now()
          itr, nev, nseq, ncalls,
          stop,      \* event-count limit of the running dispatch_n_events call, 0 = idle
          handled    \* sequence of ev in dispatch order

mvars == <<pending, cur, now, itr, nev, nseq, ncalls, stop, handled>>

Less(a, b) == \/ a.t < b.t \/ (a.t = b.t /\ a.cls < b.cls) \/ (a.t = b.t /\ a.cls = b.cls /\ a.seq < b.seq)
MinOf(S) == CHOOSE e \in S : \A f \in S : f = e \/ Less(e, f)
(* the order the contract demands: by scheduling order inside a class *)
LessC(a, b) == \/ a.t < b.t \/ (a.t = b.t /\ a.cls < b.cls) \/ (a.t = b.t /\ a.cls = b.cls /\ a.ev < b.ev)

Init == /\ pending = {} /\ cur = 0 /\ now = 0 /\ itr = 0 /\ nev = 0 /\ nseq = 0 /\ ncalls = 0 /\ stop = 0 /\ handled = <<>>

Insert(S, ev, t, c, s) == S \cup {[ev |-> ev, t |-> t, cls |-> IF t = c THEN 0 ELSE 1, seq |-> s]}

(* add_event while idle (before the run or while paused): accepted iff t >= now *)
AddExt(t) == /\ stop = 0 /\ nev < MaxEv /\ t >= now
             /\ t >= cur                                   \* the queue itself panics otherwise (D4 when cur ran ahead of now)
             /\ pending' = Insert(pending, nev, t, cur, nseq) /\ nev' = nev + 1 /\ nseq' = nseq + 1
             /\ UNCHANGED <<cur, now, itr, ncalls, stop, handled>>
(* the add the contract accepts but the mechanism rejects *)
AddRejectedAlthoughLegal == \E t \in 0..MaxT : stop = 0 /\ nev < MaxEv /\ t >= now /\ t < cur

BeginN(n) == /\ stop = 0 /\ ncalls < MaxCalls /\ stop' = itr + n /\ ncalls' = ncalls + 1
             /\ UNCHANGED <<pending, cur, now, itr, nev, nseq, handled>>

(* one iteration of `while !self.dispatch_event() {}` *)
DispatchEvent ==
  /\ stop > 0
  /\ IF pending = {} THEN stop' = 0 /\ UNCHANGED <<pending, cur, now, itr, nev, nseq, ncalls, handled>>
     ELSE LET e == MinOf(pending) IN
          IF itr + 1 > stop                                    \* limit.applies(itr + 1, time)
          THEN /\ stop' = 0
               /\ IF Fixed THEN UNCHANGED <<pending, cur, nseq>>
                  ELSE /\ cur' = e.t                            \* fetch_next advanced the queue time ...
                       /\ pending' = Insert(pending \ {e}, e.ev, e.t, e.t, nseq)   \* ... and the event is re-inserted
                       /\ nseq' = nseq + 1
               /\ UNCHANGED <<now, itr, nev, ncalls, handled>>
          ELSE \E k \in 0..2 :                                  \* the handler schedules k zero-delay follow-ups
                 /\ nev + k <= MaxEv
                 /\ cur' = e.t /\ now' = e.t /\ itr' = itr + 1 /\ handled' = Append(handled, e.ev)
                 /\ pending' = (pending \ {e}) \cup {[ev |-> nev + i, t |-> e.t, cls |-> 0, seq |-> nseq + i] : i \in 0..(k - 1)}
                 /\ nev' = nev + k /\ nseq' = nseq + k
                 /\ UNCHANGED <<ncalls, stop>>

Next == (\E t \in 0..MaxT : AddExt(t)) \/ (\E n \in 1..2 : BeginN(n)) \/ DispatchEvent
Spec == Init /\ [][Next]_mvars

(* C10: events are handled in the order of the dispatch key on their scheduling order *)
HandledInContractOrder == [][handled' # handled =>
                              LET ev == handled'[Len(handled')]
                                  e == CHOOSE x \in pending : x.ev = ev IN
                              \A f \in pending : f = e \/ LessC(e, f)]_mvars
(* C10: while paused the runtime accepts new events at any time >= the reported time *)
PausedAcceptsLegalAdds == ~AddRejectedAlthoughLegal
(* a call that stops at its limit does not disturb the queue time *)
PausePure == [][(stop > 0 /\ stop' = 0) => cur' = cur]_mvars
=============================================================================
