----------------------------- MODULE Gen_Gates -----------------------------
(* Direction G for Gates.tla: one witness call sequence per distinct reachable wiring (hist is     *)
(* hidden from the state fingerprint by a VIEW), printed with every observable C08/C19 talk about. *)
EXTENDS Gates, Json
VARIABLE hist
ggvars == <<gvars, hist>>
GInit == Init /\ hist = <<>>
GNext == Next /\ hist' = Append(hist, gret')
GSpec == GInit /\ [][GNext]_ggvars
View == <<slot, ncalls, dead, gret>>   \* gret: every call outcome from every wiring is the last call of some witness

SubsetsOfMods == SUBSET Mods
GateObs(g) == [g |-> g, kind |-> Kind(slot, g), path |-> PathFrom(slot, g), end |-> EndOf(slot, g)]
TopoObs(S) == [nodes |-> S, edges |-> EdgesOf(slot, S), connected |-> Connected(slot, S),
               bidirectional |-> Bidirectional(slot, S)]
(* views after Topology::filter_edges with an orientation predicate: asymmetric graphs *)
AsymObs(dir) == LET E == {e \in EdgesOf(slot, Mods) : IF dir = "lt" THEN e.from < e.to ELSE e.from > e.to} IN
                [dir |-> dir, view |-> [nodes |-> Mods, edges |-> E, connected |-> ConnectedE(Mods, E), bidirectional |-> BidirectionalE(E)]]
(* views after filter_edges removed the one edge that starts at gate k (its reverse edge, if any, stays) *)
CutObs(k) == LET E == {e \in EdgesOf(slot, Mods) : e.g1 # k} IN
             [cut |-> k, view |-> [nodes |-> Mods, edges |-> E, connected |-> ConnectedE(Mods, E), bidirectional |-> BidirectionalE(E)]]
DijkObs(src) == [src |-> src,
                 targets |-> {[v |-> v, first |-> FirstEdges(slot, Mods, src, v)] :
                                v \in {w \in Mods \ {src} : Dist(slot, Mods, src)[w] <= NM}}]
Obs == [calls |-> hist,
        gates |-> {GateObs(g) : g \in Gates},
        global |-> TopoObs(Mods),
        spanned |-> {[root |-> r, view |-> TopoObs(Reach(slot, r))] : r \in Mods},
        filtered |-> {[keep |-> S, view |-> TopoObs(S)] : S \in SubsetsOfMods},
        asym |-> {AsymObs("lt"), AsymObs("gt")},
        cut |-> {CutObs(k) : k \in EndGates(slot)},
        dijkstra |-> {DijkObs(m) : m \in Mods}]
Emit == (ncalls = MaxCalls \/ dead) => PrintT(<<"REPLAY", ToJson(Obs)>>)
=============================================================================
