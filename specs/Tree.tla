-------------------------------- MODULE Tree --------------------------------
(***************************************************************************)
(* C12: the module tree.  Mechanism: SimBuilder::raw + ModuleTree::add     *)
(* (insertion position = behind the parent's last descendant).  Contract:  *)
(* the tree order is the depth-first pre-order with siblings in creation   *)
(* order; start-up runs stage-major over that order; tear-down visits each *)
(* module once in that order; duplicates and orphans are rejected.         *)
(***************************************************************************)
EXTENDS Naturals, Sequences, FiniteSets, TLC, SequencesExt

CONSTANTS TopNames, SubNames, MaxDepth, MaxCalls, MaxFails, StageChoices

VARIABLES mods,      \* sequence of paths (each a sequence of names): ModuleTree::modules
          created,   \* sequence of [p |-> path, st |-> stages] in creation order
          ncalls, nfails, tret

tvars == <<mods, created, ncalls, nfails, tret>>

Paths == UNION {{<<t>> \o s : t \in TopNames, s \in UNION {[1..k -> SubNames] : k \in 0..(n - 1)}} : n \in 1..MaxDepth}
Parent(p) == SubSeq(p, 1, Len(p) - 1)
Has(q, p) == \E i \in 1..Len(q) : q[i] = p
IndexOf(q, p) == CHOOSE i \in 1..Len(q) : q[i] = p

Init == mods = <<>> /\ created = <<>> /\ ncalls = 0 /\ nfails = 0 /\ tret = [op |-> "init"]

(* ModuleTree::add: behind the parent, skipping every following entry that is deeper than the parent *)
RECURSIVE SkipDeeper(_, _, _)
SkipDeeper(q, pos, d) == IF pos <= Len(q) /\ Len(q[pos]) > d THEN SkipDeeper(q, pos + 1, d) ELSE pos
InsertPos(q, p) == IF Len(p) = 1 THEN Len(q) + 1
                   ELSE SkipDeeper(q, IndexOf(q, Parent(p)) + 1, Len(p) - 1)

Node(p, st) ==
  /\ ncalls < MaxCalls /\ ncalls' = ncalls + 1
  /\ IF Has(mods, p)
     THEN /\ nfails < MaxFails /\ nfails' = nfails + 1
          /\ tret' = [op |-> "node", p |-> p, st |-> st, res |-> "panic_duplicate"] /\ UNCHANGED <<mods, created>>
     ELSE IF Len(p) > 1 /\ ~Has(mods, Parent(p))
     THEN /\ nfails < MaxFails /\ nfails' = nfails + 1
          /\ tret' = [op |-> "node", p |-> p, st |-> st, res |-> "panic_no_parent"] /\ UNCHANGED <<mods, created>>
     ELSE /\ mods' = InsertAt(mods, InsertPos(mods, p), p)
          /\ created' = Append(created, [p |-> p, st |-> st])
          /\ tret' = [op |-> "node", p |-> p, st |-> st, res |-> "ok"] /\ UNCHANGED nfails

(* stage counts: either chosen freely from StageChoices or, if that set is empty, derived from the path *)
(* (depth and last name) so that many different stage profiles occur without extra branching          *)
StOf(p) == (Len(p) + (IF p[Len(p)] = "ab" THEN 1 ELSE 0)) % 3
Next == \E p \in Paths : \E st \in (IF StageChoices = {} THEN {StOf(p)} ELSE StageChoices) : Node(p, st)
Spec == Init /\ [][Next]_tvars

-----------------------------------------------------------------------------
(* contract: depth-first pre-order, siblings in creation order *)
CreatedPaths == [i \in 1..Len(created) |-> created[i].p]
ChildrenOf(par) == SelectSeq(CreatedPaths, LAMBDA p : Len(p) = Len(par) + 1 /\ Parent(p) = par)
RECURSIVE DFS(_)
RECURSIVE DFSList(_)
DFS(par) == DFSList(ChildrenOf(par))
DFSList(cs) == IF cs = <<>> THEN <<>> ELSE <<cs[1]>> \o DFS(cs[1]) \o DFSList(Tail(cs))
TreeOrderOK == mods = DFS(<<>>)
NoDuplicates == \A i, j \in 1..Len(mods) : i # j => mods[i] # mods[j]
ParentsFirst == \A i \in 1..Len(mods) : Len(mods[i]) > 1 => \E j \in 1..(i - 1) : mods[j] = Parent(mods[i])
FailsChangeNothing == [][tret'.res # "ok" => (mods' = mods /\ created' = created)]_tvars

StagesOf(p) == created[CHOOSE i \in 1..Len(created) : created[i].p = p].st
MaxStage == LET S == {created[i].st : i \in 1..Len(created)} \cup {1} IN CHOOSE x \in S : \A y \in S : y <= x
(* stage-major start-up log and tear-down log *)
RECURSIVE StageLog(_, _)
StageLog(stage, i) == IF i > Len(mods) THEN <<>>
                      ELSE (IF stage < StagesOf(mods[i]) THEN <<[p |-> mods[i], stage |-> stage]>> ELSE <<>>) \o StageLog(stage, i + 1)
RECURSIVE StartLog(_)
StartLog(stage) == IF stage >= MaxStage THEN <<>> ELSE StageLog(stage, 1) \o StartLog(stage + 1)
=============================================================================
