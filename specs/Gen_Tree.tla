------------------------------ MODULE Gen_Tree ------------------------------
EXTENDS Tree, Json
VARIABLE hist
GInit == Init /\ hist = <<>>
GNext == Next /\ hist' = Append(hist, tret')
GSpec == GInit /\ [][GNext]_<<tvars, hist>>
Obs == [calls |-> hist, order |-> mods, start |-> StartLog(0), stop |-> mods]
Emit == (ncalls = MaxCalls) => PrintT(<<"REPLAY", ToJson(Obs)>>)
=============================================================================
