---------------------------- MODULE TimerDriver ----------------------------
(***************************************************************************)
(* Mechanism layer for C05: the per-module timer driver of                 *)
(* des/src/time/driver.rs together with ModuleRef::activate / deactivate   *)
(* (des/src/net/module/refs.rs).                                           *)
(*   slots      : TimerQueue::pending, sorted by time, entries = timers    *)
(*   nextWakeup : Driver::next_wakeup                                      *)
(*   wakeups    : times of AsyncWakeupEvents currently in the event set    *)
(*   Activate   : bump() wakes all slots that are due; a reached           *)
(*                next_wakeup is cleared                                   *)
(*   Deactivate : schedule a wake-up for next() if it is earlier than the  *)
(*                one already scheduled                                    *)
(* Fixed = FALSE transcribes the pinned TimerQueue::next() (front slot     *)
(* only), Fixed = TRUE the repaired one (first slot with a live timer).    *)
(* Invariant NoLostTimer: between events every live timer has a wake-up    *)
(* event at or before its deadline.                                        *)
(***************************************************************************)
EXTENDS Naturals, Sequences, FiniteSets, TLC, SequencesExt
CONSTANTS MaxT, Timers, Fixed, MaxOps
INF == MaxT + 1
VARIABLES now, slots, nextWakeup, wakeups, active, reg, ops
vars == <<now, slots, nextWakeup, wakeups, active, reg, ops>>
\* reg[x] = 0 : not registered ; d > 0 : registered with deadline d
Init == now = 0 /\ slots = <<>> /\ nextWakeup = INF /\ wakeups = {} /\ active = FALSE
        /\ reg = [x \in Timers |-> 0] /\ ops = 0
MinW == IF wakeups = {} THEN INF ELSE CHOOSE w \in wakeups : \A v \in wakeups : w <= v
\* --- event arrival
Bump(s) == SelectSeq(s, LAMBDA sl : sl.time > now')
Woken(s) == UNION {s[k].entries : k \in {j \in 1..Len(s) : s[j].time <= now'}}
Activate(t, isWake) ==
    /\ ~active /\ ops < MaxOps
    /\ now' = t
    /\ wakeups' = IF isWake THEN wakeups \ {t} ELSE wakeups
    /\ slots' = Bump(slots)
    /\ reg' = [x \in Timers |-> IF x \in Woken(slots) THEN 0 ELSE reg[x]]
    /\ nextWakeup' = IF nextWakeup <= t THEN INF ELSE nextWakeup
    /\ active' = TRUE /\ ops' = ops + 1
FireWakeup == wakeups # {} /\ Activate(MinW, TRUE)
OtherEvent == \E t \in now..MaxT : t <= MinW /\ (t < MinW \/ wakeups = {} \/ TRUE) /\ t < INF /\ Activate(t, FALSE)
\* --- user ops while active
InsPos(s, d) == Cardinality({i \in 1..Len(s) : s[i].time < d}) + 1
HasSlot(s, d) == \E i \in 1..Len(s) : s[i].time = d
Register(x, d) == /\ active /\ reg[x] = 0 /\ d > now /\ d <= MaxT /\ ops < MaxOps
                  /\ slots' = IF HasSlot(slots, d)
                              THEN [i \in 1..Len(slots) |-> IF slots[i].time = d THEN [slots[i] EXCEPT !.entries = @ \cup {x}] ELSE slots[i]]
                              ELSE InsertAt(slots, InsPos(slots, d), [time |-> d, entries |-> {x}])
                  /\ reg' = [reg EXCEPT ![x] = d] /\ ops' = ops + 1
                  /\ UNCHANGED <<now, nextWakeup, wakeups, active>>
DropTimer(x) == /\ active /\ reg[x] # 0 /\ ops < MaxOps
                /\ slots' = [i \in 1..Len(slots) |-> [slots[i] EXCEPT !.entries = @ \ {x}]]
                /\ reg' = [reg EXCEPT ![x] = 0] /\ ops' = ops + 1
                /\ UNCHANGED <<now, nextWakeup, wakeups, active>>
NextOf(s) == IF Fixed
             THEN IF \E i \in 1..Len(s) : s[i].entries # {}
                  THEN s[CHOOSE i \in 1..Len(s) : s[i].entries # {} /\ \A j \in 1..i-1 : s[j].entries = {}].time
                  ELSE INF
             ELSE IF s # <<>> /\ s[1].entries # {} THEN s[1].time ELSE INF
Deactivate == /\ active
              /\ LET nx == NextOf(slots) IN
                 IF nx < INF /\ nx < nextWakeup
                 THEN nextWakeup' = nx /\ wakeups' = wakeups \cup {nx}
                 ELSE UNCHANGED <<nextWakeup, wakeups>>
              /\ active' = FALSE /\ UNCHANGED <<now, slots, reg, ops>>
Next == FireWakeup \/ OtherEvent \/ Deactivate \/ \E x \in Timers : DropTimer(x) \/ \E d \in 1..MaxT : Register(x, d)
Spec == Init /\ [][Next]_vars
NoLostTimer == ~active => \A i \in 1..Len(slots) : slots[i].entries # {} => \E w \in wakeups : w <= slots[i].time
NotLate == ~active => \A i \in 1..Len(slots) : slots[i].entries # {} => slots[i].time >= now
WakeFuture == \A w \in wakeups : w >= now
=============================================================================
