---------------------------- MODULE Ind_Time ----------------------------
(* Apalache: the laws that Time.tla checks with TLC for instants and durations in 0..N hold for ARBITRARY naturals   *)
(* (no bound N): a, b, d are chosen freely in the initial state and the law is the invariant of that single state. *)
(* Records with an `ok` flag are spelled out as two operators (ok / value) - the definitions are those of Time.tla. *)
EXTENDS Naturals

VARIABLES
  \* @type: Int;
  a,
  \* @type: Int;
  b,
  \* @type: Int;
  d

SinceOk(x, y) == x >= y
SinceV(x, y) == IF x >= y THEN x - y ELSE 0
Sat(x, y) == IF x >= y THEN x - y ELSE 0
Diff(x, y) == IF x > y THEN x - y ELSE y - x
Approx(x, y, e) == Diff(x, y) < e
SubOk(x, e) == x >= e
SubV(x, e) == IF x >= e THEN x - e ELSE 0

IInit == a \in Nat /\ b \in Nat /\ d \in Nat
INext == UNCHANGED <<a, b, d>>

ILaws ==
  /\ Diff(a, b) = Diff(b, a)
  /\ (SinceOk(a, b) => b + SinceV(a, b) = a)
  /\ (~SinceOk(a, b) => Sat(a, b) = 0)
  /\ (SinceOk(a, b) => Sat(a, b) = SinceV(a, b))
  /\ (SubOk(a, d) => SubV(a, d) + d = a)
  /\ (Approx(a, b, d) => Approx(b, a, d))
  /\ ~Approx(a, b, 0)
  /\ (Approx(a, b, d) /\ a >= b => a < b + d)
  \* triangle inequality of the distance, and monotonicity of + d (the embedding argument of section 2.3 rests on both)
  /\ Diff(a, b) <= Diff(a, d) + Diff(d, b)
  /\ (a < b <=> a + d < b + d)
  /\ Diff(a + d, b + d) = Diff(a, b)
=============================================================================
