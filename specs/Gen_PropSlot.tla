---------------------------- MODULE Gen_PropSlot ----------------------------
EXTENDS PropSlot, Json
VARIABLE hist
GInit == TInit /\ hist = <<pret>>
GNext == TNext /\ hist' = Append(hist, pret')
GSpec == GInit /\ [][GNext]_<<slot, nops, pret, held, hist>>
Emit == (nops = MaxOps) => PrintT(<<"REPLAY", ToJson(hist)>>)
=============================================================================
