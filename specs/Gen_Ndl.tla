------------------------------ MODULE Gen_Ndl ------------------------------
(* Direction G for Ndl.tla: a base description (inheritance, clusters, nested submodules, a generic *)
(* module, cluster-to-cluster and indexed connections, links) and every description that differs    *)
(* from it in at most MaxChanges variation points (single-point mutations: dangling names,          *)
(* off-by-one indices, cycles, wrong / generic / non-conforming type arguments, zero-sized          *)
(* clusters, ...), each printed with what Elab assigns to it.                                       *)
EXTENDS Ndl, Json
CONSTANT MaxChanges
VARIABLE p       \* the chosen value of every variation point

Slots == [leafPortsK : {2, 1, 3, 0}, leaf2Inherit : {"Leaf", "", "Nope", "Leaf2"}, boxArg : {"Leaf2", "Leaf", "Other", "Box", "Nope"},
          boxArgsN : {1, 0, 2}, midLsK : {2, 1, 0, Atom}, nIdx : {1, 0, 2}, connGate : {"port", "nogate"}, connSub : {"m", "nosub"},
          link : {"L2", "", "L9", "L3"}, entry : {"Main", "Nope", "Mid"}, dupGen : {FALSE, TRUE}, selfConn : {FALSE, TRUE},
          nK : {2, 3, 0}, sideIdx : {0, 1, 2, Atom}, boxInArgs : {0, 1}]
Base == [leafPortsK |-> 2, leaf2Inherit |-> "Leaf", boxArg |-> "Leaf2", boxArgsN |-> 1, midLsK |-> 2, nIdx |-> 1, connGate |-> "port",
         connSub |-> "m", link |-> "L2", entry |-> "Main", dupGen |-> FALSE, selfConn |-> FALSE, nK |-> 2, sideIdx |-> 0, boxInArgs |-> 0]
Changed(q) == Cardinality({f \in DOMAIN Base : q[f] # Base[f]})

DefOf(q) ==
  [entry |-> q.entry,
   links |-> {"L1", "L2", "L3"},
   mods |-> [
     Leaf  |-> Mod(<<>>, "", <<F("port", Atom), F("ports", q.leafPortsK)>>, <<>>, <<>>),
     Leaf2 |-> Mod(<<>>, q.leaf2Inherit, <<F("extra", Atom)>>, <<>>, <<>>),
     Other |-> Mod(<<>>, "", <<F("zzz", Atom)>>, <<>>, <<>>),
     Box   |-> Mod(IF q.dupGen THEN <<Gen("x", "Leaf"), Gen("x", "Leaf")>> ELSE <<Gen("x", "Leaf")>>, "",
                   <<F("up", Atom)>>, <<Sub("in", Atom, "x", IF q.boxInArgs = 1 THEN <<"Leaf">> ELSE <<>>), Sub("in2", 2, "x", <<>>)>>,
                   <<Con(<<F("up", Atom)>>, <<F("in", Atom), F("port", Atom)>>, ""),
                     Con(<<F("in2", 0), F("port", Atom)>>, <<F("in2", 1), F("port", Atom)>>, "L3")>>),
     Mid   |-> Mod(<<>>, "", <<F("side", 2)>>,
                   <<Sub("l", Atom, "Leaf", <<>>), Sub("ls", q.midLsK, "Leaf", <<>>)>>,
                   <<Con(<<F("l", Atom), F("ports", Atom)>>, <<F("ls", Atom), F("port", Atom)>>, "L1"),
                     Con(<<F("side", q.sideIdx)>>, <<F("ls", IF q.midLsK = Atom THEN Atom ELSE 0), F("ports", 0)>>, "")>>),
     Main  |-> Mod(<<>>, "", <<>>,
                   <<Sub("m", Atom, "Mid", <<>>),
                     Sub("b", Atom, "Box", CASE q.boxArgsN = 1 -> <<q.boxArg>> [] q.boxArgsN = 0 -> <<>> [] OTHER -> <<q.boxArg, "Leaf">>),
                     Sub("n", q.nK, "Leaf", <<>>)>>,
                   <<Con(<<F("n", 0), F(q.connGate, Atom)>>, <<F("n", q.nIdx), F("port", Atom)>>, q.link),
                     Con(<<F("b", Atom), F("up", Atom)>>, <<F(q.connSub, Atom), F("l", Atom), F("port", Atom)>>, "")>>
                   \o (IF q.selfConn THEN <<Con(<<F("n", 0), F("ports", 1)>>, <<F("n", 0), F("ports", 1)>>, "")>> ELSE <<>>))
   ]]

Init == p \in {q \in Slots : Changed(q) <= MaxChanges}
Next == UNCHANGED p
Spec == Init /\ [][Next]_p
Emit == PrintT(<<"REPLAY", ToJson([p |-> p, def |-> DefOf(p), elab |-> Elab(DefOf(p))])>>)
=============================================================================
