------------------------------ MODULE Gen_Ndl ------------------------------
(* Direction G for Ndl.tla: a base description (inheritance, clusters, nested submodules, a generic *)
(* module, cluster-to-cluster and indexed connections, links) and every description that differs    *)
(* from it in at most MaxChanges variation points (single-point mutations: dangling names,          *)
(* off-by-one indices, cycles, wrong / generic / non-conforming type arguments, zero-sized          *)
(* clusters, ...), each printed with what Elab assigns to it.                                       *)
EXTENDS Ndl, Json
CONSTANT MaxChanges
VARIABLE p       \* the chosen value of every variation point

Doms == [leafPortsK |-> {2, 1, 3, 0}, leaf2Inherit |-> {"Leaf", "", "Nope", "Leaf2", "Box"}, boxArg |-> {"Leaf2", "Leaf", "Other", "Box", "Nope"},
         boxArgsN |-> {1, 0, 2}, midLsK |-> {2, 1, 0, Atom}, nIdx |-> {1, 0, 2}, connGate |-> {"port", "nogate"}, connSub |-> {"m", "nosub"},
         link |-> {"L2", "", "L9", "L3"}, entry |-> {"Main", "Nope", "Mid", "Box"}, dupGen |-> {FALSE, TRUE}, selfConn |-> {FALSE, TRUE},
         nK |-> {2, 3, 0}, sideIdx |-> {0, 1, 2, Atom}, boxInArgs |-> {0, 1},
         gArg |-> {"Iface", "ImplMore", "ImplLess", "ImplGateLess", "ImplWrongSub"}, leaf1K |-> {Atom, 1}, fwdGen |-> {FALSE, TRUE},
         redecl |-> {"no", "gate", "samegate", "sub"}, pairA |-> {"Leaf", "Leaf2"}, boxInherit |-> {"", "x"}]
Base == [leafPortsK |-> 2, leaf2Inherit |-> "Leaf", boxArg |-> "Leaf2", boxArgsN |-> 1, midLsK |-> 2, nIdx |-> 1, connGate |-> "port",
         connSub |-> "m", link |-> "L2", entry |-> "Main", dupGen |-> FALSE, selfConn |-> FALSE, nK |-> 2, sideIdx |-> 0, boxInArgs |-> 0,
         gArg |-> "Iface", leaf1K |-> Atom, fwdGen |-> FALSE, redecl |-> "no", pairA |-> "Leaf", boxInherit |-> ""]
Pts == DOMAIN Base
Alt(f) == Doms[f] \ {Base[f]}
(* the base description and every description that differs from it in at most MaxChanges (<= 3) variation points *)
One(dummy) == UNION {{[Base EXCEPT ![f] = v] : v \in Alt(f)} : f \in Pts}
Two(dummy) == UNION {{[Base EXCEPT ![f] = v, ![g] = w] : v \in Alt(f), w \in Alt(g)} : <<f, g>> \in {x \in Pts \X Pts : x[1] # x[2]}}
Three(dummy) == UNION {{[Base EXCEPT ![x[1]] = u, ![x[2]] = v, ![x[3]] = w] : u \in Alt(x[1]), v \in Alt(x[2]), w \in Alt(x[3])}
                  : x \in {y \in Pts \X Pts \X Pts : y[1] # y[2] /\ y[1] # y[3] /\ y[2] # y[3]}}
(* operators with a dummy parameter: TLC evaluates zero-arity definitions eagerly at start-up *)
Variants(n) == {Base} \cup (IF n >= 1 THEN One(0) ELSE {}) \cup (IF n >= 2 THEN Two(0) ELSE {}) \cup (IF n >= 3 THEN Three(0) ELSE {})

DefOf(q) ==
  [entry |-> q.entry,
   links |-> {"L1", "L2", "L3"},
   mods |-> [
     Leaf  |-> Mod(<<>>, "", <<F("port", Atom), F("ports", q.leafPortsK)>>, <<>>, <<>>),
     (* Leaf2 may declare an inherited gate again: with another size (an error) or identically (harmless) *)
     Leaf2 |-> Mod(<<>>, q.leaf2Inherit, <<F("extra", Atom)>> \o (IF q.redecl = "gate" THEN <<F("ports", 5)>> ELSE IF q.redecl = "samegate" THEN <<F("port", Atom)>> ELSE <<>>), <<>>, <<>>),
     Other |-> Mod(<<>>, "", <<F("zzz", Atom)>>, <<>>, <<>>),
     (* an interface with a submodule, an implementation that extends it (inherits, adds a submodule), one that lacks *)
     (* the submodule and one that lacks the gate; GBox is generic over the interface and wires into the submodule    *)
     Iface |-> Mod(<<>>, "", <<F("p", Atom)>>, <<Sub("inner", Atom, "Leaf", <<>>)>>, <<>>),
     ImplMore |-> Mod(<<>>, "Iface", <<F("q", Atom)>>, <<Sub("more", Atom, "Leaf", <<>>)>> \o (IF q.redecl = "sub" THEN <<Sub("inner", Atom, "Leaf", <<>>)>> ELSE <<>>), <<>>),
     (* two bindings, the second one named like a global module: Pair(Leaf2, Leaf) must give left = Leaf2, right = Leaf *)
     Pair  |-> Mod(<<Gen("t", "Leaf"), Gen("Leaf2", "Leaf")>>, "", <<>>, <<Sub("left", Atom, "t", <<>>), Sub("right", Atom, "Leaf2", <<>>)>>, <<>>),
     ImplLess |-> Mod(<<>>, "", <<F("p", Atom)>>, <<>>, <<>>),
     ImplGateLess |-> Mod(<<>>, "", <<F("q", Atom)>>, <<Sub("inner", Atom, "Leaf", <<>>)>>, <<>>),
     ImplWrongSub |-> Mod(<<>>, "", <<F("p", Atom)>>, <<Sub("inner", Atom, "Other", <<>>)>>, <<>>),   \* same submodule name, other type
     GBox  |-> Mod(<<Gen("y", "Iface")>>, "", <<>>, <<Sub("t", Atom, "y", <<>>)>>,
                   <<Con(<<F("t", Atom), F("inner", Atom), F("port", Atom)>>, <<F("t", Atom), F("p", Atom)>>, "")>>),
     Box   |-> Mod(IF q.dupGen THEN <<Gen("x", "Leaf"), Gen("x", "Leaf")>> ELSE <<Gen("x", "Leaf")>>, q.boxInherit,    \* "x": a parent named like the module's own binding is no module
                   <<F("up", Atom)>>, <<Sub("in", Atom, "x", IF q.boxInArgs = 1 THEN <<"Leaf">> ELSE <<>>), Sub("in2", 2, "x", <<>>)>>
                   \o (IF q.fwdGen THEN <<Sub("fw", Atom, "GBox", <<"x">>)>> ELSE <<>>),    \* its own binding passed on as an argument
                   <<Con(<<F("up", Atom)>>, <<F("in", Atom), F("port", Atom)>>, ""),
                     Con(<<F("in2", 0), F("port", Atom)>>, <<F("in2", 1), F("port", Atom)>>, "L3")>>),
     Mid   |-> Mod(<<>>, "", <<F("side", 2)>>,
                   <<Sub("l", Atom, "Leaf", <<>>), Sub("ls", q.midLsK, "Leaf", <<>>)>>,
                   <<Con(<<F("l", Atom), F("ports", Atom)>>, <<F("ls", Atom), F("port", Atom)>>, "L1"),
                     Con(<<F("side", q.sideIdx)>>, <<F("ls", IF q.midLsK = Atom THEN Atom ELSE 0), F("ports", 0)>>, "")>>),
     Main  |-> Mod(<<>>, "", <<>>,
                   <<Sub("m", Atom, "Mid", <<>>),
                     Sub("b", Atom, "Box", CASE q.boxArgsN = 1 -> <<q.boxArg>> [] q.boxArgsN = 0 -> <<>> [] OTHER -> <<q.boxArg, "Leaf">>),
                     Sub("n", q.nK, "Leaf", <<>>),
                     Sub("g", Atom, "GBox", <<q.gArg>>),
                     Sub("pr", Atom, "Pair", <<q.pairA, "Leaf">>),
                     Sub("one", q.leaf1K, "Leaf", <<>>)>>,
                   <<Con(<<F("n", 0), F(q.connGate, Atom)>>, <<F("n", q.nIdx), F("port", Atom)>>, q.link),
                     Con(<<F("b", Atom), F("up", Atom)>>, <<F(q.connSub, Atom), F("l", Atom), F("port", Atom)>>, "")>>
                   \o (IF q.selfConn THEN <<Con(<<F("n", 0), F("ports", 1)>>, <<F("n", 0), F("ports", 1)>>, "")>> ELSE <<>>))
   ]]

Init == p \in Variants(MaxChanges)
Next == UNCHANGED p
Spec == Init /\ [][Next]_p
Emit == PrintT(<<"REPLAY", ToJson([p |-> p, def |-> DefOf(p), elab |-> Elab(DefOf(p))])>>)
=============================================================================
