----------------------------- MODULE Gen_Props -----------------------------
(* Direction G for Props.tla: every configuration in the bound with the property sets the       *)
(* definition assigns to every module path (paths with an empty expectation are omitted).        *)
EXTENDS Props, Json
Obs == [cfg |-> cfg,
        expect |-> {[path |-> p, props |-> Expected(cfg, p)] : p \in {q \in Paths : ExpectedNames(cfg, q) # {}}}]
Emit == (cfg # {}) => PrintT(<<"REPLAY", ToJson(Obs)>>)
=============================================================================
