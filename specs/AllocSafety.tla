---------------------------- MODULE AllocSafety ----------------------------
(***************************************************************************)
(* Contract of the calendar-queue page allocator (C15, first sentence):    *)
(* it never hands out memory that overlaps a live allocation, is           *)
(* misaligned, or lies outside the pages it owns; memory is reused only    *)
(* after it was released; only live regions are released, once.            *)
(* Addresses are <<page, offset>> flattened to page * PS + offset (pages   *)
(* are page aligned, so alignment can be judged on the offset).            *)
(***************************************************************************)
EXTENDS Naturals, FiniteSets
CONSTANT
  \* @type: Int;
  PS                 \* page size in allocation units
VARIABLES
  \* @type: Set(Int);
  pages,             \* set of page indices currently owned
  \* @type: Set({addr: Int, size: Int, align: Int});
  live               \* set of [addr, size, align]
avars == <<pages, live>>

\* @type: ({addr: Int, size: Int, align: Int}, {addr: Int, size: Int, align: Int}) => Bool;
Disj(a, b) == a.addr + a.size <= b.addr \/ b.addr + b.size <= a.addr
InOnePage(addr, size, P) == \E p \in P : p * PS <= addr /\ addr + size <= (p + 1) * PS

AInit == pages = {0} /\ live = {}

(* any number of fresh pages may be acquired by an allocation *)
Alloc(addr, size, align, newpages) ==
  /\ pages \subseteq newpages
  /\ addr % align = 0
  /\ InOnePage(addr, size, newpages)
  /\ \A r \in live : Disj([addr |-> addr, size |-> size, align |-> align], r)
  /\ pages' = newpages
  /\ live' = live \cup {[addr |-> addr, size |-> size, align |-> align]}

Dealloc(addr, size) ==
  /\ \E r \in live : r.addr = addr /\ r.size = size
  /\ live' = {r \in live : r.addr # addr}
  /\ UNCHANGED pages

(* a request that cannot be served fails without changing anything *)
Fail == UNCHANGED <<pages, live>>

LiveDisjoint == \A a, b \in live : a = b \/ Disj(a, b)
LiveAligned  == \A a \in live : a.addr % a.align = 0
LiveInPage   == \A a \in live : InOnePage(a.addr, a.size, pages)
=============================================================================
