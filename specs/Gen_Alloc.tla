----------------------------- MODULE Gen_Alloc -----------------------------
(* Direction G for the allocator mechanism: every operation sequence in the bound with the exact  *)
(* placement the transcribed first-fit algorithm produces.                                       *)
EXTENDS Alloc, Json
VARIABLE hist
gvars == <<vars, hist>>
GInit == Init /\ hist = <<>>
GNext == Next /\ hist' = Append(hist, aret')
GSpec == GInit /\ [][GNext]_gvars
Emit == (ops = MaxOps) => PrintT(<<"REPLAY", ToJson(hist)>>)
=============================================================================
