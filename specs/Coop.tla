-------------------------------- MODULE Coop --------------------------------
(***************************************************************************)
(* Mechanism behind finding F-C06-2: tokio's cooperative budget inside one *)
(* module event (Harness::exec: `block_on(async { f(); yield_now().await   *)
(* })` on a current-thread runtime).                                       *)
(*                                                                         *)
(* A task poll may perform at most B budgeted operations (B = 128 in       *)
(* tokio); a task with more ready work returns Pending after *deferring*   *)
(* its waker.  yield_now() of the event's main future defers its waker in  *)
(* the same list.  Deferred wakers are fired, in order, when the scheduler *)
(* has nothing left to run; block_on then polls the main future first: it  *)
(* is finished, the event ends - and the tasks that were cut off by the    *)
(* budget sit in the run queue until the module's next event.              *)
(*                                                                         *)
(* RunUntilIdle = TRUE is a sketch of a repair: the main future yields     *)
(* again as long as some task was deferred during the last round.          *)
(* Invariant Quiescent: between events no task has ready work.             *)
(***************************************************************************)
EXTENDS Naturals, Sequences, FiniteSets, TLC

CONSTANTS NTasks, B, MaxWork, RunUntilIdle

VARIABLES work,      \* [task -> ready budgeted operations]
          runq,      \* run queue
          deferred,  \* deferred wakers, in order: 0 = the event's main future, t = task t
          phase      \* "idle" | "sched"

cvars == <<work, runq, deferred, phase>>
Tasks == 1..NTasks
Min(a, b) == IF a < b THEN a ELSE b
RECURSIVE Ready(_, _)
Ready(w, t) == IF t > NTasks THEN <<>> ELSE (IF w[t] > 0 THEN <<t>> ELSE <<>>) \o Ready(w, t + 1)
RECURSIVE Without0(_)
Without0(s) == IF s = <<>> THEN <<>> ELSE (IF Head(s) = 0 THEN <<>> ELSE <<Head(s)>>) \o Without0(Tail(s))

Init == work = [t \in Tasks |-> 0] /\ runq = <<>> /\ deferred = <<>> /\ phase = "idle"

(* an event makes work ready (messages arrived, timers expired), the handler runs, the main future yields *)
Event == /\ phase = "idle"
         /\ \E w \in [Tasks -> 0..MaxWork] :
              /\ \E t \in Tasks : w[t] > 0
              /\ work' = [t \in Tasks |-> work[t] + w[t]]
              /\ runq' = Ready(work', 1)
         /\ deferred' = <<0>> /\ phase' = "sched"

(* one task poll: at most B operations; a task with work left defers its waker *)
PollTask == /\ phase = "sched" /\ runq # <<>>
            /\ LET t == Head(runq)  n == Min(work[t], B) IN
               /\ work' = [work EXCEPT ![t] = @ - n]
               /\ runq' = Tail(runq)
               /\ deferred' = IF work[t] - n > 0 THEN Append(deferred, t) ELSE deferred
            /\ UNCHANGED phase

(* nothing runnable: the deferred wakers fire; block_on looks at the main future first *)
Park == /\ phase = "sched" /\ runq = <<>>
        /\ LET tasks == Without0(deferred) IN
           IF RunUntilIdle /\ tasks # <<>>
           THEN /\ runq' = tasks /\ deferred' = <<0>> /\ UNCHANGED <<work, phase>>     \* main yields once more
           ELSE /\ runq' = tasks /\ deferred' = <<>> /\ phase' = "idle" /\ UNCHANGED work   \* main completes: the event ends

Next == Event \/ PollTask \/ Park
Spec == Init /\ [][Next]_cvars

Quiescent == phase = "idle" => (runq = <<>> /\ \A t \in Tasks : work[t] = 0)
Bounded == \A t \in Tasks : work[t] <= 2 * MaxWork
=============================================================================
