---------------------------- MODULE Trace_Gates ----------------------------
(* Direction V for Gates.tla: random connect sequences on larger module sets are executed on real  *)
(* gates; the recorded call outcomes and the recorded topology observations must agree with the    *)
(* definitions.                                                                                    *)
EXTENDS Gates, Json, IOUtils
Rec == ndJsonDeserialize(IOEnv.TRACE)
VARIABLE l
tvars == <<gvars, l>>
Ev == Rec[l]
SeqSet(q) == {q[i] : i \in 1..Len(q)}
EdgeTuples(E) == {<<e.from, e.to, e.g1, e.g2>> : e \in E}
RecEdges(q) == {<<q[i][1], q[i][2], q[i][3], q[i][4]>> : i \in 1..Len(q)}
ViewOK(v, S) == LET E == EdgesOf(slot, S) IN
                /\ SeqSet(v.nodes) = S /\ Len(v.nodes) = Cardinality(S)
                /\ RecEdges(v.edges) = EdgeTuples(E) /\ Len(v.edges) = Cardinality(E)
                /\ v.connected = ConnectedE(S, E) /\ v.bidirectional = BidirectionalE(E)
ObsOK == /\ \A i \in 1..Len(Ev.gates) :
              LET go == Ev.gates[i] IN
              /\ go.kind = Kind(slot, go.g)
              /\ (go.kind # "transit" => go.path = PathFrom(slot, go.g))
         /\ ViewOK(Ev.global, Mods)
         /\ \A i \in 1..Len(Ev.spanned) : ViewOK(Ev.spanned[i].view, Reach(slot, Ev.spanned[i].root))
         /\ \A i \in 1..Len(Ev.dijkstra) :
              LET dj == Ev.dijkstra[i]
                  d == Dist(slot, Mods, dj.src) IN
              /\ {dj.targets[k][1] : k \in 1..Len(dj.targets)} = {v \in Mods \ {dj.src} : d[v] <= NM}
              /\ \A k \in 1..Len(dj.targets) :
                   \E e \in FirstEdges(slot, Mods, dj.src, dj.targets[k][1]) : e.g1 = dj.targets[k][2] /\ e.g2 = dj.targets[k][3]
TInit == Init /\ l = 1
TStep == \/ (Ev.op = "reset" /\ slot' = [g \in Gates |-> [i \in 0..1 |-> Empty]] /\ ncalls' = 0 /\ dead' = FALSE /\ gret' = [op |-> "init"])
         \/ (Ev.op = "connect" /\ Connect(Ev.a, Ev.b)
             /\ (Ev.res = "ok_or_noop" => gret'.res \in {"ok", "noop"})      \* returned normally
             /\ (Ev.res # "ok_or_noop" => gret'.res = Ev.res))
         \/ (Ev.op = "obs" /\ ObsOK /\ UNCHANGED gvars)
TNext == l <= Len(Rec) /\ l' = l + 1 /\ TStep
TSpec == TInit /\ [][TNext]_tvars
Accepted == IF TLCGet("stats").diameter - 1 = Len(Rec) THEN TRUE
            ELSE Print(<<"REJECTED", TLCGet("stats").diameter>>, FALSE)
=============================================================================
