------------------------------- MODULE Gates -------------------------------
(***************************************************************************)
(* Gates, connections and the topology views derived from them.            *)
(* Mechanism + contract in one module: `slot` mirrors                      *)
(* des::net::gate::Connections ([Option<Connection>; 2] with back-indices),*)
(* Connect follows Gate::connect, NextHop/PathFrom follow                  *)
(* Connection::next_hop / PathIter; the invariants are what C08 states     *)
(* about wiring (<= 2 peers, symmetric, idempotent, mirror image) and the  *)
(* Topology operators are the *definitions* C19 refers to.                 *)
(***************************************************************************)
EXTENDS Naturals, Sequences, FiniteSets, TLC, SequencesExt

CONSTANTS NG,        \* gates 1..NG
          NM,        \* modules 1..NM
          Owner,     \* sequence: Owner[g] = owning module
          MaxCalls   \* number of connect calls explored

VARIABLES slot,      \* [Gates -> [0..1 -> [peer, pid]]], peer = 0: empty
          ncalls,
          dead,      \* a connect call hit the "already two peers" panic (terminal, see DESIGN C08)
          gret       \* result of the last connect call

gvars == <<slot, ncalls, dead, gret>>

(* gate-to-module assignments used by the configurations (cfg files cannot contain tuples) *)
Own5x3 == <<1, 1, 2, 2, 3>>
Own6x4 == <<1, 1, 2, 2, 3, 4>>
Own6x3 == <<1, 1, 2, 2, 3, 3>>
Own6x2 == <<1, 1, 1, 2, 2, 2>>
Own4x4 == <<1, 2, 3, 4>>
Own12x7 == <<1, 1, 1, 2, 2, 3, 3, 4, 5, 6, 7, 7>>
Own12x5 == <<1, 1, 1, 2, 2, 2, 3, 3, 4, 4, 5, 5>>
Own12x6 == <<1, 1, 1, 2, 2, 3, 3, 4, 5, 5, 6, 6>>

Gates == 1..NG
Mods == 1..NM
Empty == [peer |-> 0, pid |-> 0]

Fill(s, g) == Cardinality({i \in 0..1 : s[g][i].peer # 0})
FirstFree(s, g) == IF s[g][0].peer = 0 THEN 0 ELSE 1

Init == /\ slot = [g \in Gates |-> [i \in 0..1 |-> Empty]]
        /\ ncalls = 0 /\ dead = FALSE /\ gret = [op |-> "init"]

(* Gate::connect(self = a, other = b) *)
Connect(a, b) ==
  /\ ncalls < MaxCalls /\ ~dead
  /\ ncalls' = ncalls + 1
  /\ IF a = b
     THEN /\ gret' = [op |-> "connect", a |-> a, b |-> b, res |-> "panic_self"] /\ UNCHANGED <<slot, dead>>
     ELSE IF \E i \in 0..1 : slot[a][i].peer = b
     THEN /\ gret' = [op |-> "connect", a |-> a, b |-> b, res |-> "noop"] /\ UNCHANGED <<slot, dead>>
     ELSE IF Fill(slot, a) >= 2 \/ Fill(slot, b) >= 2
     THEN /\ gret' = [op |-> "connect", a |-> a, b |-> b, res |-> "panic_full"] /\ dead' = TRUE /\ UNCHANGED slot
     ELSE /\ slot' = [slot EXCEPT ![a][FirstFree(slot, a)] = [peer |-> b, pid |-> Fill(slot, b)],
                                  ![b][FirstFree(slot, b)] = [peer |-> a, pid |-> Fill(slot, a)]]
          /\ gret' = [op |-> "connect", a |-> a, b |-> b, res |-> "ok"] /\ UNCHANGED dead

Next == \E a, b \in Gates : Connect(a, b)
Spec == Init /\ [][Next]_gvars

-----------------------------------------------------------------------------
(* Walking a chain: Connection = [g, id]; Connection::new_unchecked(g) = [g, 1] *)
NextHop(s, c) == LET e == s[c.g][1 - c.id] IN IF e.peer = 0 THEN <<>> ELSE <<[g |-> e.peer, id |-> e.pid]>>

RECURSIVE Walk(_, _, _)
Walk(s, c, fuel) == IF fuel = 0 THEN <<>>
                    ELSE LET n == NextHop(s, c) IN
                         IF n = <<>> THEN <<>> ELSE <<n[1].g>> \o Walk(s, n[1], fuel - 1)

Kind(s, g) == CASE Fill(s, g) = 0 -> "standalone" [] Fill(s, g) = 1 -> "endpoint" [] OTHER -> "transit"
(* Gate::path_iter (None for transit gates): the gates after g, in order *)
PathFrom(s, g) == Walk(s, [g |-> g, id |-> 1], NG + 1)
EndOf(s, g) == LET p == PathFrom(s, g) IN IF p = <<>> THEN g ELSE p[Len(p)]

(* ---- what C08 states about wiring ---- *)
AtMostTwo   == \A g \in Gates : Fill(slot, g) <= 2
NoSelf      == \A g \in Gates : \A i \in 0..1 : slot[g][i].peer # g
Symmetry    == \A g \in Gates : \A i \in 0..1 :
                 slot[g][i].peer # 0 =>
                   LET b == slot[g][i].peer  j == slot[g][i].pid IN
                   /\ j \in 0..1 /\ slot[b][j].peer = g /\ slot[b][j].pid = i
DistinctPeers == \A g \in Gates : Fill(slot, g) = 2 => slot[g][0].peer # slot[g][1].peer
EndpointSlot0 == \A g \in Gates : Fill(slot, g) = 1 => slot[g][0].peer # 0
(* a chain enumerates as the exact mirror image from its other end *)
Mirror == \A g \in Gates : Kind(slot, g) = "endpoint" =>
             LET p == PathFrom(slot, g)  e == EndOf(slot, g) IN
             /\ p # <<>> /\ Kind(slot, e) = "endpoint" /\ e # g
             /\ <<e>> \o PathFrom(slot, e) = Reverse(<<g>> \o p)
(* idempotent: repeating an accepted call changes nothing *)
Idempotent == [][(gret'.op = "connect" /\ gret'.res = "noop") => slot' = slot]_gvars
FailsChangeNothing == [][(gret'.op = "connect" /\ gret'.res # "ok") => slot' = slot]_gvars

-----------------------------------------------------------------------------
(* Topology views (definitions of C19) over a wiring s *)
EndGates(s) == {g \in Gates : Kind(s, g) = "endpoint"}
EdgesOf(s, S) == {[from |-> Owner[g], to |-> Owner[EndOf(s, g)], g1 |-> g, g2 |-> EndOf(s, g)] :
                    g \in {h \in EndGates(s) : Owner[h] \in S /\ Owner[EndOf(s, h)] \in S}}
Succ(s, m) == {Owner[EndOf(s, g)] : g \in {h \in EndGates(s) : Owner[h] = m}}

RECURSIVE ReachFrom(_, _)
ReachFrom(s, R) == LET R2 == R \cup UNION {Succ(s, m) : m \in R} IN IF R2 = R THEN R ELSE ReachFrom(s, R2)
Reach(s, root) == ReachFrom(s, {root})

(* graph queries over an explicit node set S and edge set E (so that filtered views are covered too) *)
SuccE(E, m) == {e.to : e \in {x \in E : x.from = m}}
(* hop distance inside S along E; NM + 1 = unreachable *)
RECURSIVE LayersE(_, _, _, _, _)
LayersE(S, E, frontier, seen, d) ==
  IF frontier = {} THEN [m \in S |-> NM + 1]
  ELSE LET nxt == (UNION {SuccE(E, m) \cap S : m \in frontier}) \ seen
           rest == LayersE(S, E, nxt, seen \cup nxt, d + 1) IN
       [m \in S |-> IF m \in frontier THEN d ELSE rest[m]]
DistE(S, E, src) == LayersE(S, E, {src}, {src}, 0)
ConnectedE(S, E) == \A m \in S : \A n \in S : DistE(S, E, m)[n] <= NM
(* the documented definition: for each edge from gate a to gate b there is an edge from gate b to gate a (an edge *)
(* somewhere back to the source *node* is not enough when two modules are linked by several chains)              *)
BidirectionalE(E) == \A e \in E : \E f \in E : f.g1 = e.g2 /\ f.g2 = e.g1
(* acceptable answers of dijkstra(src) for target v: first edges of minimum-hop paths *)
FirstEdgesE(S, E, src, v) == LET d == DistE(S, E, src) IN {e \in E : e.from = src /\ DistE(S, E, e.to)[v] = d[v] - 1}

Dist(s, S, src) == DistE(S, EdgesOf(s, S), src)
Connected(s, S) == ConnectedE(S, EdgesOf(s, S))
Bidirectional(s, S) == BidirectionalE(EdgesOf(s, S))
FirstEdges(s, S, src, v) == FirstEdgesE(S, EdgesOf(s, S), src, v)
=============================================================================
