---------------------------- MODULE Gen_AsyncMod ----------------------------
EXTENDS MC_AsyncMod, Json
ObsOut == [prog |-> prog, obs |-> obs, unfinished |-> Unfinished, panicked |-> Panicked, amb |-> amb]
Emit == (done /\ ~amb) => PrintT(<<"REPLAY", ToJson(ObsOut)>>)
=============================================================================
