------------------------------ MODULE AsyncMod ------------------------------
(***************************************************************************)
(* Contract of the async side of one module (C05, C06, async part of C09): *)
(* tasks are sequential programs over timer and channel awaits; an await   *)
(* completes exactly at the instant its condition becomes true; simulated  *)
(* time advances only when no task is runnable (C06); a timer is never     *)
(* lost however many other timers were created, reset or dropped (C05).    *)
(*                                                                         *)
(* The module is an idealised reference interpreter: no slots, no wake-up  *)
(* events, no executor budgets.  The scheduler below is deterministic      *)
(* (lowest runnable task first); programs are race free (one sender and    *)
(* one receiver per channel), so each task's observation sequence does not *)
(* depend on the schedule; the harness compares per task.                  *)
(***************************************************************************)
EXTENDS Integers, Sequences, FiniteSets, TLC

CONSTANTS Tasks,     \* 1..N
          Progs,     \* set of admissible program assignments [Tasks -> Seq(step)]
          MaxT,      \* horizon: awaits beyond MaxT never complete (run ends)
          Tol        \* interval: a tick observed at most Tol ticks late does not count as missed (5 ms in des)

INF == MaxT + 1000

(* steps: [k, a, b, m]                                                      *)
(*  sleep a | tosleep a b (timeout(a, sleep(b))) | tonever a | torecv a b(ch)*)
(*  select a b (biased) | reset a b | polldrop a | ivlnew a(period) m(mode) *)
(*  twin a (two sleeps for the same deadline polled once, first dropped)    *)
(*  ivlnew a(period) b(start offset) | ivlreset                             *)
(*  tick | send a(ch) | recv a(ch) | sendself a(delay): a message to the    *)
(*  module that its handler forwards into channel 0 | restart a(delay)      *)
(*  panic: the task panics; tokio confines the panic to the task (C13): it *)
(*  never runs again, everything else is unaffected                         *)

VARIABLES now, prog, pc, st, dl, dl2, ivl, q, inc, obs, amb, pendSelf, shut, done,
          tmo   \* channels on which a timed receive elapsed at the current instant (to recognise ties)

avars == <<now, prog, pc, st, dl, dl2, ivl, q, inc, obs, amb, pendSelf, shut, done, tmo>>

Chans == 0..(Cardinality(Tasks) + 1)
NoIvl == [dl |-> -1, per |-> 0, mode |-> ""]

Fresh == /\ pc = [t \in Tasks |-> 1] /\ st = [t \in Tasks |-> "ready"]
         /\ dl = [t \in Tasks |-> INF] /\ dl2 = [t \in Tasks |-> INF]
         /\ ivl = [t \in Tasks |-> NoIvl] /\ q = [c \in Chans |-> 0]

Init == /\ now = 0 /\ prog \in Progs /\ Fresh /\ inc = 1
        /\ obs = [t \in Tasks |-> <<>>] /\ amb = FALSE /\ pendSelf = {} /\ shut = -1 /\ done = FALSE /\ tmo = {}

Cur(t) == prog[t][pc[t]]
Finished(t) == pc[t] > Len(prog[t])
Ready == {t \in Tasks : st[t] = "ready" /\ ~Finished(t)}
Min(S) == CHOOSE x \in S : \A y \in S : x <= y

Log(t, res) == [obs EXCEPT ![t] = Append(@, [step |-> pc[t], t |-> now, res |-> res, inc |-> inc])]

(* the await of task t completes now with result res *)
Complete(t, res) == /\ obs' = Log(t, res) /\ pc' = [pc EXCEPT ![t] = @ + 1]
                    /\ st' = [st EXCEPT ![t] = "ready"] /\ dl' = [dl EXCEPT ![t] = INF] /\ dl2' = [dl2 EXCEPT ![t] = INF]
Block(t, kind, d1, d2) == /\ st' = [st EXCEPT ![t] = kind] /\ dl' = [dl EXCEPT ![t] = d1] /\ dl2' = [dl2 EXCEPT ![t] = d2]
                          /\ UNCHANGED <<obs, pc>>

(* interval: next deadline after a tick that was due at `due` and is observed at `at` *)
NextTick(due, at, per, mode) ==
  IF at <= due + Tol THEN due + per
  ELSE CASE mode = "burst" -> due + per
         [] mode = "delay" -> at + per
         [] OTHER -> at + per - ((at - due) % per)

(* one step of the lowest runnable task *)
RunStep ==
  /\ Ready # {} /\ ~done
  /\ LET t == Min(Ready)  s == Cur(t) IN
     CASE s.k = "sleep" ->
            /\ (IF s.a = 0 THEN Complete(t, "ok") ELSE Block(t, "timer", now + s.a, INF))
            /\ UNCHANGED <<ivl, q, amb, pendSelf, shut>>
       [] s.k = "tosleep" ->
            /\ (IF s.a = 0 \/ s.b = 0 THEN Complete(t, IF s.b = 0 THEN "ok" ELSE "elapsed")
                ELSE Block(t, "tosleep", now + s.a, now + s.b))
            /\ UNCHANGED <<ivl, q, amb, pendSelf, shut>>
       [] s.k = "tonever" ->
            /\ (IF s.a = 0 THEN Complete(t, "elapsed") ELSE Block(t, "tonever", now + s.a, INF))
            /\ UNCHANGED <<ivl, q, amb, pendSelf, shut>>
       [] s.k = "select" ->
            /\ (IF s.a = 0 \/ s.b = 0 THEN Complete(t, IF s.a = 0 THEN "first" ELSE "second")
                ELSE Block(t, "select", now + s.a, now + s.b))
            /\ UNCHANGED <<ivl, q, amb, pendSelf, shut>>
       [] s.k = "handpoll" ->  \* a sleep that was first polled by somebody else (another task, a throw-away waker) and is then awaited here
            /\ (IF s.a = 0 THEN Complete(t, "ok") ELSE Block(t, "timer", now + s.a, INF))
            /\ UNCHANGED <<ivl, q, amb, pendSelf, shut>>
       [] s.k = "yield" ->     \* tokio::task::yield_now(): the task stays runnable, nothing else happens
            /\ Complete(t, "ok") /\ UNCHANGED <<ivl, q, amb, pendSelf, shut>>
       [] s.k = "twin" ->      \* two timers with one deadline in one task; the first one is dropped at once, the second awaited
            /\ (IF s.a = 0 THEN Complete(t, "ok") ELSE Block(t, "timer", now + s.a, INF))
            /\ UNCHANGED <<ivl, q, amb, pendSelf, shut>>
       [] s.k = "reset" ->
            /\ Block(t, "timer", now + s.b, INF) /\ UNCHANGED <<ivl, q, amb, pendSelf, shut>>
       [] s.k = "polldrop" ->
            /\ Complete(t, "ok") /\ UNCHANGED <<ivl, q, amb, pendSelf, shut>>
       [] s.k = "ivlnew" ->      \* interval(period) (b = 0) resp. interval_at(now + b, period): the first tick is due at the start
            /\ ivl' = [ivl EXCEPT ![t] = [dl |-> now + s.b, per |-> s.a, mode |-> s.m]]
            /\ Complete(t, "ok") /\ UNCHANGED <<q, amb, pendSelf, shut>>
       [] s.k = "ivlreset" ->    \* Interval::reset: the next tick completes one period after now, whatever was missed
            /\ ivl' = [ivl EXCEPT ![t].dl = now + ivl[t].per]
            /\ Complete(t, "ok") /\ UNCHANGED <<q, amb, pendSelf, shut>>
       [] s.k = "tick" ->
            /\ IF ivl[t].dl <= now
               THEN /\ Complete(t, <<"tick", ivl[t].dl>>)
                    /\ ivl' = [ivl EXCEPT ![t].dl = NextTick(ivl[t].dl, now, ivl[t].per, ivl[t].mode)]
               ELSE /\ Block(t, "tick", ivl[t].dl, INF) /\ UNCHANGED ivl
            /\ UNCHANGED <<q, amb, pendSelf, shut>>
       [] s.k = "send" ->
            /\ q' = [q EXCEPT ![s.a] = @ + 1]
            /\ amb' = (amb \/ s.a \in tmo \/ \E u \in Tasks : st[u] = "torecv" /\ dl2[u] = s.a /\ dl[u] = now)
            /\ Complete(t, "ok") /\ UNCHANGED <<ivl, pendSelf, shut>>
       [] s.k = "recv" ->
            /\ IF q[s.a] > 0 THEN Complete(t, "ok") /\ q' = [q EXCEPT ![s.a] = @ - 1]
               ELSE Block(t, "recv", INF, s.a) /\ UNCHANGED q
            /\ UNCHANGED <<ivl, amb, pendSelf, shut>>
       [] s.k = "torecv" ->
            /\ IF q[s.b] > 0 THEN Complete(t, "ok") /\ q' = [q EXCEPT ![s.b] = @ - 1]
               ELSE IF s.a = 0 THEN Complete(t, "elapsed") /\ UNCHANGED q
               ELSE Block(t, "torecv", now + s.a, s.b) /\ UNCHANGED q
            /\ UNCHANGED <<ivl, amb, pendSelf, shut>>
       [] s.k = "sendself" ->
            /\ pendSelf' = pendSelf \cup {now + s.a}
            /\ amb' = (amb \/ (now + s.a) \in pendSelf)       \* two self messages for one instant: keep scenarios simple
            /\ Complete(t, "ok") /\ UNCHANGED <<ivl, q, shut>>
       [] s.k = "panic" ->
            /\ obs' = Log(t, "panic") /\ st' = [st EXCEPT ![t] = "dead"]
            /\ UNCHANGED <<pc, dl, dl2, ivl, q, amb, pendSelf, shut>>
       [] s.k = "restart" ->
            /\ shut' = IF inc = 1 THEN now + s.a ELSE shut      \* only the first incarnation restarts the module
            /\ Complete(t, "ok") /\ UNCHANGED <<ivl, q, amb, pendSelf>>
  /\ UNCHANGED <<now, prog, inc, done, tmo>>

(* a blocked receiver whose channel got a message becomes runnable at once (same instant: C06) *)
WakeRecv ==
  /\ ~done /\ Ready = {}
  /\ \E t \in Tasks : st[t] \in {"recv", "torecv"} /\ q[dl2[t]] > 0
  /\ LET t == Min({u \in Tasks : st[u] \in {"recv", "torecv"} /\ q[dl2[u]] > 0}) IN
     /\ q' = [q EXCEPT ![dl2[t]] = @ - 1]
     /\ Complete(t, "ok")
  /\ UNCHANGED <<now, prog, ivl, inc, amb, pendSelf, shut, done, tmo>>

Quiet == Ready = {} /\ ~\E t \in Tasks : st[t] \in {"recv", "torecv"} /\ q[dl2[t]] > 0

(* end of the event in which a task asked for shutdown-and-restart: everything of this incarnation is cancelled *)
DoShutdown ==
  /\ ~done /\ Quiet /\ shut >= 0 /\ inc = 1
  /\ inc' = 2 /\ now' = shut /\ pendSelf' = {} /\ shut' = -1
  /\ pc' = [t \in Tasks |-> 1] /\ st' = [t \in Tasks |-> "ready"]
  /\ dl' = [t \in Tasks |-> INF] /\ dl2' = [t \in Tasks |-> INF]
  /\ ivl' = [t \in Tasks |-> NoIvl] /\ q' = [c \in Chans |-> 0]
  /\ amb' = (amb \/ shut = now)                   \* restart in zero time: kept out of the generated scenarios
  /\ tmo' = {}
  /\ UNCHANGED <<prog, obs, done>>

Deadlines == {dl[t] : t \in {u \in Tasks : st[u] \in {"timer", "tosleep", "tonever", "select", "tick", "torecv"}}}
             \cup {dl2[t] : t \in {u \in Tasks : st[u] \in {"tosleep", "select"}}}
             \cup pendSelf

(* time advances only when nothing is runnable, to the earliest deadline; every await due then completes *)
Advance ==
  /\ ~done /\ Quiet /\ ~(shut >= 0 /\ inc = 1)
  /\ Deadlines # {} /\ Min(Deadlines) <= MaxT
  /\ LET T == Min(Deadlines)
         due(t) == st[t] \in {"timer", "tosleep", "tonever", "select", "tick", "torecv"} /\ (dl[t] = T \/ (st[t] \in {"tosleep", "select"} /\ dl2[t] = T))
         res(t) == CASE st[t] = "timer" -> "ok"
                     [] st[t] = "tosleep" -> IF dl2[t] <= dl[t] THEN "ok" ELSE "elapsed"
                     [] st[t] = "tonever" -> "elapsed"
                     [] st[t] = "select" -> IF dl[t] <= dl2[t] THEN "first" ELSE "second"
                     [] st[t] = "tick" -> <<"tick", ivl[t].dl>>
                     [] st[t] = "torecv" -> "elapsed" IN
     /\ now' = T
     /\ obs' = [t \in Tasks |-> IF due(t) THEN Append(obs[t], [step |-> pc[t], t |-> T, res |-> res(t), inc |-> inc]) ELSE obs[t]]
     /\ pc' = [t \in Tasks |-> IF due(t) THEN pc[t] + 1 ELSE pc[t]]
     /\ st' = [t \in Tasks |-> IF due(t) THEN "ready" ELSE st[t]]
     /\ dl' = [t \in Tasks |-> IF due(t) THEN INF ELSE dl[t]]
     /\ dl2' = [t \in Tasks |-> IF due(t) THEN INF ELSE dl2[t]]
     /\ ivl' = [t \in Tasks |-> IF due(t) /\ st[t] = "tick" THEN [ivl[t] EXCEPT !.dl = NextTick(ivl[t].dl, T, ivl[t].per, ivl[t].mode)] ELSE ivl[t]]
     (* a self message due now is forwarded by the module's handler into channel 0 *)
     /\ q' = IF T \in pendSelf THEN [q EXCEPT ![0] = @ + 1] ELSE q
     /\ pendSelf' = pendSelf \ {T}
     /\ amb' = (amb \/ (T \in pendSelf /\ \E u \in Tasks : st[u] = "torecv" /\ dl2[u] = 0 /\ dl[u] = T))
     /\ tmo' = {dl2[u] : u \in {x \in Tasks : st[x] = "torecv" /\ dl[x] = T}}
  /\ UNCHANGED <<prog, inc, shut, done>>

End == /\ ~done /\ Quiet /\ ~(shut >= 0 /\ inc = 1) /\ (IF Deadlines = {} THEN TRUE ELSE Min(Deadlines) > MaxT)
       /\ done' = TRUE
       /\ UNCHANGED <<now, prog, pc, st, dl, dl2, ivl, q, inc, obs, amb, pendSelf, shut, tmo>>

Next == RunStep \/ WakeRecv \/ DoShutdown \/ Advance \/ End
Spec == Init /\ [][Next]_avars

-----------------------------------------------------------------------------
Panicked == {t \in Tasks : st[t] = "dead"}
(* a panicked task counts as finished for its join handle (it resolves to a panic error) *)
Unfinished == {t \in Tasks : ~Finished(t) /\ st[t] # "dead"}
(* C06: time never advances while a task is runnable *)
NoAdvanceWhileRunnable == [][now' # now => Quiet]_avars
(* C05: a completed timer await is logged exactly at its deadline (by construction of Advance); never early *)
TimeMonotone == [][now' >= now]_avars
ObsTimesOrdered == \A t \in Tasks : \A i \in 1..(Len(obs[t]) - 1) :
                      obs[t][i].inc < obs[t][i + 1].inc \/ obs[t][i].t <= obs[t][i + 1].t
=============================================================================
