---------------------------- MODULE MC_AsyncMod ----------------------------
(* Program menus for AsyncMod.tla (model checking, generation, and the large C06 families). *)
EXTENDS AsyncMod
CONSTANT NT          \* number of tasks for the families (Tasks <- TasksN)
TasksN == 1..NT

St(k, a, b, m) == [k |-> k, a |-> a, b |-> b, m |-> m]
Sleep(d) == St("sleep", d, 0, "")
ToSleep(a, b) == St("tosleep", a, b, "")
ToNever(a) == St("tonever", a, 0, "")
ToRecv(a, ch) == St("torecv", a, ch, "")
Select(a, b) == St("select", a, b, "")
Reset(a, b) == St("reset", a, b, "")
PollDrop(a) == St("polldrop", a, 0, "")
Twin(a) == St("twin", a, 0, "")
HandPoll(a) == St("handpoll", a, 0, "")
Yield == St("yield", 0, 0, "")
IvlNew(p, mode) == St("ivlnew", p, 0, mode)
IvlAt(start, p, mode) == St("ivlnew", p, start, mode)
IvlReset == St("ivlreset", 0, 0, "")
Tick == St("tick", 0, 0, "")
Send(ch) == St("send", ch, 0, "")
Recv(ch) == St("recv", ch, 0, "")
SendSelf(d) == St("sendself", d, 0, "")
Restart(d) == St("restart", d, 0, "")
PanicT == St("panic", 0, 0, "")

Seqs(S, n) == UNION {[1..k -> S] : k \in 1..n}
(* timer-centric steps: every way a timer can be created, fire, be reset or be dropped before firing *)
TimerSteps == {Sleep(1), Sleep(2), Sleep(0), ToSleep(3, 1), ToSleep(1, 3), ToSleep(2, 2), ToNever(2), Select(1, 3), Select(3, 1),
               Reset(3, 1), Reset(1, 3), Reset(2, 2), PollDrop(2), PollDrop(4), Twin(2)}
(* two tasks with up to n timer steps each, both followed by a final sleep (the timer that must not be lost) *)
ProgsTimers(n) == {[t \in Tasks |-> IF t = 1 THEN p1 \o <<Sleep(2)>> ELSE p2 \o <<Sleep(1)>>] : p1 \in Seqs(TimerSteps, n), p2 \in Seqs(TimerSteps, n)}
ProgsT1 == ProgsTimers(1)
ProgsT2 == ProgsTimers(2)
ProgsTimers1 == {[t \in Tasks |-> p \o <<Sleep(2)>>] : p \in Seqs(TimerSteps, 3)}

(* intervals and missed ticks *)
IvlSteps == {Tick, Sleep(1), Sleep(3), Sleep(5)}
ProgsIvl == {[t \in Tasks |-> <<IvlNew(2, mode)>> \o p \o <<Tick, Tick>>] : mode \in {"burst", "delay", "skip"}, p \in Seqs(IvlSteps, 3)}

(* interval_at with a start in the future, Interval::reset after ticks that were taken on time, late, or not at all *)
IvlSteps2 == {Tick, Sleep(1), Sleep(3), IvlReset}
ProgsIvlAt == {[t \in Tasks |-> <<IvlAt(start, 2, mode)>> \o p \o <<Tick, Tick>>] : start \in {0, 1, 3}, mode \in {"burst", "delay", "skip"}, p \in Seqs(IvlSteps2, 3)}

(* the same on a millisecond grid (period 10 ms): ticks picked up a little late (<= 5 ms: not "missed") and a lot late *)
IvlStepsMs == {Tick, Sleep(3), Sleep(12), Sleep(14), Sleep(17), Sleep(30)}
ProgsIvlMs == {[t \in Tasks |-> <<IvlNew(10, mode)>> \o p \o <<Tick, Tick>>] : mode \in {"burst", "delay", "skip"}, p \in Seqs(IvlStepsMs, 3)}

(* channels between tasks and from the module: wake-ups inside one instant *)
ChanSteps1 == {Sleep(1), Sleep(2), Send(1), SendSelf(1), SendSelf(2), Recv(0), ToRecv(3, 0)}
ChanSteps2 == {Recv(1), ToRecv(2, 1), ToRecv(4, 1), Sleep(1), Sleep(3)}
ProgsChan == {[t \in Tasks |-> IF t = 1 THEN p1 ELSE p2 \o <<Sleep(1)>>] : p1 \in Seqs(ChanSteps1, 3), p2 \in Seqs(ChanSteps2, 2)}

(* shutdown and restart requested from a task; the other task has timers pending across the shutdown *)
LifeSteps1 == {Sleep(1), Sleep(2), Restart(1), Restart(3), ToSleep(3, 1)}
LifeSteps2 == {Sleep(1), Sleep(3), Sleep(4), ToNever(2), Select(2, 5)}
ProgsLife == {[t \in Tasks |-> IF t = 1 THEN p1 \o <<Sleep(1)>> ELSE p2 \o <<Sleep(2)>>] : p1 \in Seqs(LifeSteps1, 3), p2 \in Seqs(LifeSteps2, 2)}
(* recorded findings: a sleep first polled with a foreign waker (F-C05-2), yield_now inside a task (F-C06-2) *)
ProgsHandPoll == {[t \in Tasks |-> IF t = 1 THEN <<HandPoll(2), Sleep(1)>> ELSE <<Sleep(1), Sleep(3)>>]}
ProgsYield == {[t \in Tasks |-> IF t = 1 THEN <<Sleep(1), Yield, Sleep(1)>> ELSE <<Sleep(3)>>],
               [t \in Tasks |-> IF t = 1 THEN <<Yield, Yield, Sleep(2)>> ELSE <<Sleep(1), Yield>>]}

(* C13: panics inside tasks (joined with join / try_join / not at all): confined to the task *)
PanicSteps1 == {Sleep(1), Sleep(2), Send(1), PanicT, SendSelf(1), Recv(0)}
PanicSteps2 == {Recv(1), ToRecv(2, 1), Sleep(1), Sleep(3), PanicT}
ProgsPanic == {[t \in Tasks |-> IF t = 1 THEN p1 ELSE p2 \o <<Sleep(1)>>] : p1 \in Seqs(PanicSteps1, 3), p2 \in Seqs(PanicSteps2, 2)}

=============================================================================
