------------------------- MODULE TimerDriverLive -------------------------
(***************************************************************************)
(* Liveness layer over TimerDriver (C05: "never lost").  The safety        *)
(* invariant NoLostTimer says that a wake-up event stands in the event set *)
(* at or before every live timer's deadline; this module adds what that is *)
(* for: under weak fairness of the two steps the runtime itself takes      *)
(* (dispatching the earliest wake-up event, ending the module event) every *)
(* registered timer is eventually woken or dropped, and it is woken at an  *)
(* instant that is not before its deadline and is exactly its deadline     *)
(* (FiresAtDeadline, an action property).  User steps (Register, Drop,     *)
(* other events) stay bounded by MaxOps and are not fair; wake-up events   *)
(* are the runtime's own and are not counted against the bound, otherwise  *)
(* the bound itself would "lose" timers.                                   *)
(***************************************************************************)
EXTENDS TimerDriver
\* the earliest wake-up event is dispatched; it is the runtime's step and free of the user bound
FireFree ==
    /\ wakeups # {} /\ ~active
    /\ now' = MinW
    /\ wakeups' = wakeups \ {MinW}
    /\ slots' = Bump(slots)
    /\ reg' = [x \in Timers |-> IF x \in Woken(slots) THEN 0 ELSE reg[x]]
    /\ nextWakeup' = IF nextWakeup <= MinW THEN INF ELSE nextWakeup
    /\ active' = TRUE /\ UNCHANGED ops
NextL == FireFree \/ OtherEvent \/ Deactivate \/ \E x \in Timers : DropTimer(x) \/ \E d \in 1..MaxT : Register(x, d)
SpecL == Init /\ [][NextL]_vars /\ WF_vars(FireFree) /\ WF_vars(Deactivate)
EventuallyWoken == \A x \in Timers : (reg[x] # 0) ~> (reg[x] = 0)
\* a timer leaves the registry only by its own drop or by a wake at exactly its deadline
FiresAtDeadline == [][\A x \in Timers : (reg[x] # 0 /\ reg'[x] = 0 /\ active' /\ ~active) => now' = reg[x]]_vars
\* time never passes a live timer's deadline
NeverOverdue == \A x \in Timers : reg[x] # 0 => reg[x] >= now
=============================================================================
