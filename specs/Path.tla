-------------------------------- MODULE Path --------------------------------
(***************************************************************************)
(* C12 (object paths): des::net::ObjectPath as a sequence of segments.     *)
(* The implementation keeps one string plus a byte offset of the last      *)
(* segment and a depth counter, maintained separately by From<&str>,       *)
(* appended, appended_gate and parent; the contract is the sequence.       *)
(* Two paths are equal (and hash alike: module lookup by path) iff they    *)
(* are the same sequence and both point to a module resp. a gate - however *)
(* they were constructed.                                                  *)
(***************************************************************************)
EXTENDS Naturals, Sequences, TLC

CONSTANTS Segs,      \* non-empty segment names
          MaxDepth,  \* bound on the depth of the start path
          MaxOps     \* number of operations applied to it

VARIABLES p,         \* the current path: sequence of segments
          gate,      \* TRUE: points to a gate (appended_gate)
          nops, pret

pvars == <<p, gate, nops, pret>>

Front(s) == SubSeq(s, 1, Len(s) - 1)
Last(s) == s[Len(s)]
Paths(n) == UNION {[1..k -> Segs] : k \in 0..n}

(* what every accessor must return for path q *)
View(q, g) == [segs |-> q, len |-> Len(q), name |-> IF q = <<>> THEN "" ELSE Last(q), root |-> (q = <<>>),
               parent |-> IF q = <<>> THEN <<"none">> ELSE <<"some", Front(q)>>,
               nzparent |-> IF Len(q) <= 1 THEN <<"none">> ELSE <<"some", Front(q)>>,
               pstr |-> IF q = <<>> THEN <<>> ELSE Front(q),        \* as_parent_str, as a segment sequence
               module |-> ~g]

Init == /\ p \in Paths(MaxDepth) /\ gate = FALSE /\ nops = 0
        /\ pret = [op |-> "from", view |-> View(p, FALSE)]

(* ObjectPath::appended(seg); the empty string appends nothing *)
Appended(s) == /\ ~gate /\ nops < MaxOps /\ nops' = nops + 1
               /\ p' = (IF s = "" THEN p ELSE Append(p, s)) /\ gate' = FALSE
               /\ pret' = [op |-> "appended", seg |-> s, view |-> View(p', FALSE)]
(* appended with a relative path of several components (what SimBuilderScoped::node does with "a.b") *)
AppendedPath(q) == /\ ~gate /\ nops < MaxOps /\ nops' = nops + 1
                   /\ p' = p \o q /\ gate' = FALSE
                   /\ pret' = [op |-> "appended_path", rel |-> q, view |-> View(p', FALSE)]
AppendedGate(s) == /\ ~gate /\ nops < MaxOps /\ nops' = nops + 1
                   /\ p' = Append(p, s) /\ gate' = TRUE
                   /\ pret' = [op |-> "appended_gate", seg |-> s, view |-> View(p', TRUE)]
(* ObjectPath::parent: None for the root (the path is kept); the parent of a gate path is its module *)
Parent == /\ nops < MaxOps /\ nops' = nops + 1
          /\ IF p = <<>> THEN (UNCHANGED <<p, gate>> /\ pret' = [op |-> "parent", res |-> "none", view |-> View(p, gate)])
             ELSE (p' = Front(p) /\ gate' = FALSE /\ pret' = [op |-> "parent", res |-> "some", view |-> View(p', FALSE)])

Next == (\E s \in Segs \cup {""} : Appended(s)) \/ (\E s \in Segs : AppendedGate(s)) \/ Parent
        \/ (\E q \in [1..2 -> Segs] : AppendedPath(q))
Spec == Init /\ [][Next]_pvars

(* sanity: the depth only changes by one; a gate path can only be left through parent *)
DepthStep == [][Len(p') \in {Len(p) - 1, Len(p), Len(p) + 1, Len(p) + 2}]_pvars
GateOnlyLeaf == gate => p # <<>>
=============================================================================
