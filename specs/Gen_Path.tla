------------------------------ MODULE Gen_Path ------------------------------
EXTENDS Path, Json
VARIABLE hist
GInit == Init /\ hist = <<pret>>
GNext == Next /\ hist' = Append(hist, pret')
GSpec == GInit /\ [][GNext]_<<pvars, hist>>
Emit == (nops = MaxOps) => PrintT(<<"REPLAY", ToJson(hist)>>)
=============================================================================
