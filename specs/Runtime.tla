------------------------------ MODULE Runtime ------------------------------
(***************************************************************************)
(* Contract of des::runtime::Runtime as a driver of the future event set:  *)
(* clock (C02), tie order (C03), stepping (C10) and limits (C11).          *)
(*                                                                         *)
(* A *program* is what the event handlers do: when event `id` is           *)
(* dispatched it issues a list of follow-up requests.  TLC chooses that    *)
(* list from Menu at the dispatch (behaviour-as-scenario, DESIGN 2.4).     *)
(*   n >= 0 : add_event_in(n ticks)                                        *)
(*   -1     : add_event at (now - 1 tick)  -> must panic, nothing changes  *)
(***************************************************************************)
EXTENDS Integers, FiniteSets, Sequences, TLC

CONSTANTS MaxT,       \* external adds use times 0..MaxT
          MaxId,      \* at most MaxId+1 events are ever scheduled
          MaxSteps,   \* at most this many dispatch_* calls
          MaxExt,     \* at most this many external add_event calls
          Menu,       \* set of follow-up lists
          Seed,       \* TRUE: one event (id 0) is scheduled at the start time before anything else
          Starts,     \* set of start times
          Limits,     \* set of limit records
          HeapInit    \* the event set's notion of "current instant" before the first dispatch: FALSE = time 0 (calendar
                      \* queue: CQueue starts its clock at 0 whatever the start time), TRUE = the start time (BinaryHeap
                      \* backend: last_event_simtime starts as Builder::start_time).  Only matters for events scheduled
                      \* before the run at exactly a non-zero start time

VARIABLES pending,    \* set of [id, t, cls]
          cur,        \* event-set time: timestamp of the last dispatched event (0 before)
          now,        \* SimTime::now()
          itr,        \* number of events dispatched
          nid,        \* number of events scheduled
          phase,      \* "ready" | "running" | "done"
          mode,       \* [k |-> "idle"] | [k |-> "n", stop |-> itr bound] | [k |-> "until", t] | [k |-> "all"]
          limit,      \* the builder's limit
          nsteps, next,
          ret         \* observable record of the last step

rvars == <<pending, cur, now, itr, nid, phase, mode, limit, nsteps, next, ret>>

Less(a, b) == \/ a.t < b.t
              \/ (a.t = b.t /\ a.cls < b.cls)
              \/ (a.t = b.t /\ a.cls = b.cls /\ a.id < b.id)
MinOf(S) == CHOOSE e \in S : \A f \in S : f = e \/ Less(e, f)

(* RuntimeLimit::applies(itr_count, time) *)
RECURSIVE Applies(_, _, _)
Applies(l, k, t) ==
  CASE l.k = "none" -> FALSE
    [] l.k = "ec"   -> k > l.n
    [] l.k = "st"   -> t > l.t
    [] l.k = "and"  -> Applies(l.l, k, t) /\ Applies(l.r, k, t)
    [] l.k = "or"   -> Applies(l.l, k, t) \/ Applies(l.r, k, t)

(* the limit in force while a dispatch_* call is running *)
ActiveLimit == CASE mode.k = "n"     -> [k |-> "ec", n |-> mode.stop]
                 [] mode.k = "until" -> [k |-> "st", t |-> mode.t]
                 [] mode.k = "all"   -> limit
                 [] OTHER            -> [k |-> "none"]

(* the call continues iff an event exists and the limit admits it *)
CanDispatch == /\ mode.k # "idle" /\ pending # {}
               /\ ~Applies(ActiveLimit, itr + 1, MinOf(pending).t)

Init == /\ itr = 0 /\ phase = "ready"
        /\ mode = [k |-> "idle"] /\ nsteps = 0 /\ next = 0
        /\ now \in Starts /\ limit \in Limits
        /\ cur = IF HeapInit THEN now ELSE 0
        /\ pending = IF Seed THEN {[id |-> 0, t |-> now, cls |-> IF now = cur THEN 0 ELSE 1]} ELSE {}
        /\ nid = IF Seed THEN 1 ELSE 0
        /\ ret = [op |-> "cfg", start |-> now, limit |-> limit, seed |-> Seed]

(* schedule one event at absolute time t (t >= now is the caller's obligation) *)
Put(S, c, id, t) == S \cup {[id |-> id, t |-> t, cls |-> IF t = c THEN 0 ELSE 1]}

(* Runtime::add_event from outside a handler: before start or while paused *)
AddExt(t) ==
  /\ phase \in {"ready", "running"} /\ mode.k = "idle" /\ next < MaxExt /\ nid <= MaxId
  /\ next' = next + 1
  /\ IF t >= now
     THEN /\ pending' = Put(pending, cur, nid, t) /\ nid' = nid + 1
          /\ ret' = [op |-> "add_ext", t |-> t, res |-> "ok", id |-> nid, remaining |-> Cardinality(pending) + 1]
     ELSE /\ ret' = [op |-> "add_ext", t |-> t, res |-> "panic", id |-> 0, remaining |-> Cardinality(pending)]
          /\ UNCHANGED <<pending, nid>>
  /\ UNCHANGED <<cur, now, itr, phase, mode, limit, nsteps>>

Start == /\ phase = "ready" /\ phase' = "running"
         /\ ret' = [op |-> "start"]
         /\ UNCHANGED <<pending, cur, now, itr, nid, mode, limit, nsteps, next>>

Begin(m, r) == /\ phase = "running" /\ mode.k = "idle" /\ nsteps < MaxSteps
               /\ mode' = m /\ nsteps' = nsteps + 1 /\ ret' = r
               /\ UNCHANGED <<pending, cur, now, itr, nid, phase, limit, next>>
BeginN(n)     == Begin([k |-> "n", stop |-> itr + n], [op |-> "step_n", n |-> n])
BeginUntil(t) == Begin([k |-> "until", t |-> t], [op |-> "step_until", t |-> t])
BeginAll      == Begin([k |-> "all"], [op |-> "step_all"])

(* follow-ups issued by the handler running at time t *)
RECURSIVE Issue(_, _, _, _, _)
Issue(S, id, t, reqs, res) ==
  IF reqs = <<>> THEN <<S, id, res>>
  ELSE LET d == Head(reqs) IN
       IF d >= 0 /\ id <= MaxId
       THEN Issue(Put(S, t, id, t + d), id + 1, t, Tail(reqs), Append(res, id))
       ELSE Issue(S, id, t, Tail(reqs), Append(res, -1))   \* rejected (past) or out of ids: nothing changes

(* one event dispatched inside a dispatch_* call; the handler issues the follow-up requests `reqs` *)
DispatchWith(reqs) ==
  /\ CanDispatch
  /\ LET e == MinOf(pending) IN
       /\ (\A k \in 1..Len(reqs) : reqs[k] = -1 => e.t > 0)
       /\ Cardinality({k \in 1..Len(reqs) : reqs[k] >= 0}) + nid <= MaxId + 1
       /\ LET r == Issue(pending \ {e}, nid, e.t, reqs, <<>>) IN
          /\ pending' = r[1] /\ nid' = r[2]
          /\ cur' = e.t /\ now' = e.t /\ itr' = itr + 1
          /\ ret' = [op |-> "handle", id |-> e.id, t |-> e.t, reqs |-> reqs, ids |-> r[3]]
  /\ UNCHANGED <<phase, mode, limit, nsteps, next>>
Dispatch == \E reqs \in Menu : DispatchWith(reqs)

(* the dispatch_* call returns *)
EndStep == /\ mode.k # "idle" /\ ~CanDispatch
           /\ mode' = [k |-> "idle"]
           /\ ret' = [op |-> "end_step", dispatched |-> itr, remaining |-> Cardinality(pending), sim_time |-> now]
           /\ UNCHANGED <<pending, cur, now, itr, nid, phase, limit, nsteps, next>>

Finish == /\ phase = "running" /\ mode.k = "idle"
          /\ phase' = "done"
          /\ ret' = [op |-> "finish", time |-> now, event_count |-> itr,
                     remaining |-> {<<e.id, e.t>> : e \in pending}]
          /\ UNCHANGED <<pending, cur, now, itr, nid, mode, limit, nsteps, next>>

Next == \/ (\E t \in 0..MaxT : AddExt(t)) \/ Start
        \/ (\E n \in 1..3 : BeginN(n)) \/ (\E t \in 0..MaxT : BeginUntil(t)) \/ BeginAll
        \/ Dispatch \/ EndStep \/ Finish

Spec == Init /\ [][Next]_rvars

-----------------------------------------------------------------------------
(* C02 *)
ClockMonotone  == [][now' >= now]_rvars
ClockIsEventTs == [][ret'.op = "handle" => (now' = ret'.t /\ \E e \in pending : e.id = ret'.id /\ e.t = ret'.t)]_rvars
NoPast         == \A e \in pending : e.t >= now /\ e.t >= cur
PastRejected   == [][(ret'.op = "add_ext" /\ ret'.t < now) => (ret'.res = "panic" /\ pending' = pending)]_rvars
FutureAccepted == [][(ret'.op = "add_ext" /\ ret'.t >= now) => ret'.res = "ok"]_rvars
(* C03 / C10: a dispatched event is always the minimum of the dispatch key *)
DispatchMin    == [][ret'.op = "handle" => ret'.id = MinOf(pending).id]_rvars
(* C10: a paused runtime reports the time of the last dispatched event and its event set is untouched by pausing *)
PausePure      == [][ret'.op \in {"end_step", "step_n", "step_until", "step_all"} => (pending' = pending /\ now' = now /\ cur' = cur)]_rvars
StepNExact     == [][(mode.k = "n" /\ ret'.op = "end_step") => (itr = mode.stop \/ pending = {})]_rvars
UntilExact     == [][(mode.k = "until" /\ ret'.op = "end_step") => (\A e \in pending : e.t > mode.t)]_rvars
(* C11: the run stops exactly where the limit first applies; nothing later is executed *)
LimitExact     == [][(mode.k = "all" /\ ret'.op = "end_step") =>
                       (pending = {} \/ Applies(limit, itr + 1, MinOf(pending).t))]_rvars
LimitRespected == [][(mode.k = "all" /\ ret'.op = "handle") => ~Applies(limit, itr', ret'.t)]_rvars
CountOK        == itr + Cardinality(pending) = nid
=============================================================================
