------------------------- MODULE Trace_AllocSafety -------------------------
(* Direction V for C15: the allocator event stream observed while real CQueues run (hook H1b) must  *)
(* be a behaviour of the contract AllocSafety.  Addresses arrive as page index * PS + offset in     *)
(* 8-byte units (-1 = address outside every owned page or not unit aligned -> rejected).           *)
EXTENDS AllocSafety, Json, IOUtils, Sequences, TLC
Rec == ndJsonDeserialize(IOEnv.TRACE)
VARIABLE l
tvars == <<avars, l>>
Ev == Rec[l]
TInit == pages = {} /\ live = {} /\ l = 1
TStep == \/ (Ev.op = "reset" /\ pages' = {} /\ live' = {})
         \/ (Ev.op = "skip" /\ UNCHANGED <<pages, live>>)
         \/ (Ev.op = "page" /\ Ev.ok /\ Ev.idx \notin pages /\ pages' = pages \cup {Ev.idx} /\ UNCHANGED live)
         \/ (Ev.op = "alloc" /\ Ev.addr >= 0 /\ Ev.size > 0 /\ Alloc(Ev.addr, Ev.size, Ev.align, pages))
         \/ (Ev.op = "dealloc" /\ Dealloc(Ev.addr, Ev.size))
         \/ (Ev.op = "release" /\ pages' = pages \ {Ev.pages[k] : k \in 1..Len(Ev.pages)} /\ UNCHANGED live)
TNext == l <= Len(Rec) /\ l' = l + 1 /\ TStep
TSpec == TInit /\ [][TNext]_tvars
Safe == LiveDisjoint /\ LiveAligned /\ LiveInPage
Accepted == IF TLCGet("stats").diameter - 1 = Len(Rec) THEN TRUE
            ELSE Print(<<"REJECTED", TLCGet("stats").diameter>>, FALSE)
=============================================================================
