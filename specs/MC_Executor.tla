---------------------------- MODULE MC_Executor ----------------------------
EXTENDS Executor
WakesChain == [t \in 1..NTasks |-> IF t < NTasks THEN {t + 1} ELSE {}]
WakesFan == [t \in 1..NTasks |-> IF t = 1 THEN 2..NTasks ELSE {}]
WakesTree == [t \in 1..NTasks |-> {u \in 1..NTasks : u = 2 * t \/ u = 2 * t + 1}]
=============================================================================
