-------------------------------- MODULE Time --------------------------------
(***************************************************************************)
(* SimTime arithmetic (des/src/time/mod.rs) as definitions over abstract   *)
(* ticks: instants and durations are naturals; a result that does not      *)
(* exist is None / a panic.  The timers of C05 and the clock rules of C02  *)
(* are built on these operations.  Any strictly monotone *additive*        *)
(* embedding (tick k -> k * unit) must give the same answers.              *)
(***************************************************************************)
EXTENDS Naturals, TLC

CONSTANT N            \* instants and durations range over 0..N

None == [ok |-> FALSE, v |-> 0]
Some(x) == [ok |-> TRUE, v |-> x]

CheckedDurationSince(a, earlier) == IF a >= earlier THEN Some(a - earlier) ELSE None
SaturatingDurationSince(a, earlier) == IF a >= earlier THEN a - earlier ELSE 0
DurationDiff(a, b) == IF a > b THEN a - b ELSE b - a
EqApprox(a, b, err) == DurationDiff(a, b) < err          \* strictly closer than the tolerance
CheckedAdd(a, d) == Some(a + d)                           \* overflow is out of reach of the bound
CheckedSub(a, d) == IF a >= d THEN Some(a - d) ELSE None
Cmp(a, b) == IF a < b THEN "lt" ELSE IF a = b THEN "eq" ELSE "gt"

Case(a, b, d) == [a |-> a, b |-> b, d |-> d,
                  cmp |-> Cmp(a, b),
                  since |-> CheckedDurationSince(a, b),       \* duration_since / a - b panic iff not ok
                  sat |-> SaturatingDurationSince(a, b),
                  diff |-> DurationDiff(a, b),
                  approx |-> EqApprox(a, b, d),
                  add |-> CheckedAdd(a, d),                   \* a + d
                  sub |-> CheckedSub(a, d)]                   \* a - d panics iff not ok
Cases == {Case(a, b, d) : a \in 0..N, b \in 0..N, d \in 0..N}

(* sanity theorems checked by TLC as ASSUME-like invariants of the one-state spec *)
VARIABLE x
Init == x = 0
Next == UNCHANGED x
Spec == Init /\ [][Next]_x
Laws == \A a \in 0..N, b \in 0..N, d \in 0..N :
          /\ DurationDiff(a, b) = DurationDiff(b, a)
          /\ (CheckedDurationSince(a, b).ok <=> a >= b)
          /\ (CheckedDurationSince(a, b).ok => b + CheckedDurationSince(a, b).v = a)
          /\ (CheckedSub(a, d).ok => CheckedAdd(CheckedSub(a, d).v, d) = Some(a))
          /\ (EqApprox(a, b, d) => EqApprox(b, a, d))
          /\ ~EqApprox(a, b, 0)
=============================================================================
