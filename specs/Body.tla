-------------------------------- MODULE Body --------------------------------
(***************************************************************************)
(* C16: message bodies are type safe, value preserving, dropped exactly    *)
(* once and measured consistently.                                         *)
(*                                                                         *)
(* Cells are the boxed body values; handles are the variables of a client  *)
(* program that hold a Message (with or without a body) or nothing; `out`  *)
(* holds values moved out of a message by a successful cast.               *)
(***************************************************************************)
EXTENDS Integers, Sequences, FiniteSets, TLC

CONSTANTS Handles,    \* e.g. {1, 2}
          Kinds,      \* abstract body kinds (rows of the table below) used in this run
          MaxOps, MaxCells

(* ---- the body-kind table: type identity, clonability and the declared byte length as a type tree ---- *)
(* tree nodes: [k |-> "prim", n], [k |-> "bytes", n], [k |-> "sum", parts |-> <<trees>>]               *)
Prim(n) == [k |-> "prim", n |-> n]
Bytes(n) == [k |-> "bytes", n |-> n]
Sum(parts) == [k |-> "sum", parts |-> parts]
RECURSIVE ByteLen(_)
ByteLen(t) == CASE t.k = "prim" -> t.n
                [] t.k = "bytes" -> t.n
                [] t.k = "sum" -> IF t.parts = <<>> THEN 0 ELSE ByteLen(t.parts[1]) + ByteLen(Sum(Tail(t.parts)))

(* kind -> [ty (Rust type identity), clonable, tree]; two kinds with the same ty differ only in value *)
Table == [
  u32a   |-> [ty |-> "u32",    clonable |-> TRUE,  tree |-> Prim(4)],
  i32a   |-> [ty |-> "i32",    clonable |-> TRUE,  tree |-> Prim(4)],            \* same layout as u32
  f32a   |-> [ty |-> "f32",    clonable |-> TRUE,  tree |-> Prim(4)],
  arr4   |-> [ty |-> "[u8;4]", clonable |-> TRUE,  tree |-> Sum(<<Prim(1), Prim(1), Prim(1), Prim(1)>>)],
  str5   |-> [ty |-> "String", clonable |-> TRUE,  tree |-> Bytes(5)],
  str0   |-> [ty |-> "String", clonable |-> TRUE,  tree |-> Bytes(0)],
  vec3   |-> [ty |-> "Vec<u8>", clonable |-> TRUE, tree |-> Sum(<<Prim(1), Prim(1), Prim(1)>>)],  \* same layout as String
  unit   |-> [ty |-> "()",     clonable |-> TRUE,  tree |-> Prim(0)],
  optS   |-> [ty |-> "Option<u64>", clonable |-> TRUE, tree |-> Sum(<<Prim(8)>>)],
  optN   |-> [ty |-> "Option<u64>", clonable |-> TRUE, tree |-> Sum(<<>>)],
  resE   |-> [ty |-> "Result<u8,String>", clonable |-> TRUE, tree |-> Bytes(3)],
  stA    |-> [ty |-> "StructA", clonable |-> TRUE, tree |-> Sum(<<Prim(2), Bytes(4), Sum(<<Prim(4)>>)>>)],   \* {a:u16, b:String(4), c:Some(u32)}
  stB    |-> [ty |-> "StructA", clonable |-> TRUE, tree |-> Sum(<<Prim(2), Bytes(0), Sum(<<>>)>>)],          \* {a, b:"", c:None}
  enU    |-> [ty |-> "EnumE",  clonable |-> TRUE,  tree |-> Sum(<<>>)],                                       \* E::Unit
  enT    |-> [ty |-> "EnumE",  clonable |-> TRUE,  tree |-> Sum(<<Prim(1), Prim(8)>>)],                      \* E::Tuple(u8,u64)
  enN    |-> [ty |-> "EnumE",  clonable |-> TRUE,  tree |-> Sum(<<Bytes(6), Sum(<<Prim(2), Bytes(4), Sum(<<Prim(4)>>)>>)>>)], \* E::Named{x:String(6), inner:StructA}
  gen    |-> [ty |-> "Gen<u16>", clonable |-> TRUE, tree |-> Sum(<<Prim(2), Prim(2)>>)],
  ncl    |-> [ty |-> "NoClone", clonable |-> FALSE, tree |-> Prim(7)],
  zst    |-> [ty |-> "Zst",    clonable |-> TRUE,  tree |-> Prim(0)],            \* zero-sized type with a destructor
  dq     |-> [ty |-> "VecDeque<u8>", clonable |-> TRUE, tree |-> Sum(<<Prim(1), Prim(1), Prim(1), Prim(1)>>)]  \* ring buffer that wraps around
]
AllTypes == {Table[k].ty : k \in DOMAIN Table}

VARIABLES hold,     \* [Handles -> 0 (nothing) | -1 (message without body) | cell id]
          cells,    \* sequence of [kind, drops, moved]
          out,      \* set of cell ids whose value was moved out by a cast and is still held by the client
          nops, bret

bvars == <<hold, cells, out, nops, bret>>

Init == hold = [h \in Handles |-> 0] /\ cells = <<>> /\ out = {} /\ nops = 0 /\ bret = [op |-> "init"]

Step == nops < MaxOps /\ nops' = nops + 1
TyOf(c) == Table[cells[c].kind].ty
LenOf(h) == IF hold[h] = -1 THEN 64 ELSE 64 + ByteLen(Table[cells[hold[h]].kind].tree)

(* Message::default().with_content(v) / set_content_non_clonable *)
New(h, k) == /\ Step /\ hold[h] = 0 /\ Len(cells) < MaxCells
             /\ cells' = Append(cells, [kind |-> k, drops |-> 0, moved |-> FALSE])
             /\ hold' = [hold EXCEPT ![h] = Len(cells) + 1]
             /\ bret' = [op |-> "new", h |-> h, kind |-> k, len |-> 64 + ByteLen(Table[k].tree)]
             /\ UNCHANGED out
NewEmpty(h) == /\ Step /\ hold[h] = 0
               /\ hold' = [hold EXCEPT ![h] = -1]
               /\ bret' = [op |-> "new_empty", h |-> h, len |-> 64]
               /\ UNCHANGED <<cells, out>>

(* msg.set_content(v) / with_content(v) on a message that may already carry a body: the old body is dropped, the *)
(* header stays                                                                                                 *)
Replace(h, k) == /\ Step /\ hold[h] # 0 /\ Len(cells) < MaxCells
                 /\ cells' = Append(IF hold[h] > 0 THEN [cells EXCEPT ![hold[h]].drops = @ + 1] ELSE cells, [kind |-> k, drops |-> 0, moved |-> FALSE])
                 /\ hold' = [hold EXCEPT ![h] = Len(cells) + 1]
                 /\ bret' = [op |-> "replace", h |-> h, kind |-> k, len |-> 64 + ByteLen(Table[k].tree), old |-> IF hold[h] > 0 THEN hold[h] ELSE 0]
                 /\ UNCHANGED out

(* msg.try_clone() into an empty handle *)
TryClone(h, g) ==
  /\ Step /\ hold[h] # 0 /\ hold[g] = 0 /\ h # g
  /\ IF hold[h] = -1
     THEN /\ hold' = [hold EXCEPT ![g] = -1] /\ bret' = [op |-> "try_clone", h |-> h, g |-> g, res |-> "some", len |-> 64]
          /\ UNCHANGED <<cells, out>>
     ELSE IF Table[cells[hold[h]].kind].clonable /\ Len(cells) < MaxCells
     THEN /\ cells' = Append(cells, [kind |-> cells[hold[h]].kind, drops |-> 0, moved |-> FALSE])
          /\ hold' = [hold EXCEPT ![g] = Len(cells) + 1]
          /\ bret' = [op |-> "try_clone", h |-> h, g |-> g, res |-> "some", len |-> LenOf(h)]
          /\ UNCHANGED out
     ELSE /\ ~Table[cells[hold[h]].kind].clonable
          /\ bret' = [op |-> "try_clone", h |-> h, g |-> g, res |-> "none", len |-> 0]
          /\ UNCHANGED <<hold, cells, out>>

(* msg.try_cast::<T>(): consumes the message; Ok moves the value out, Err gives the message back intact *)
TryCast(h, T) ==
  /\ Step /\ hold[h] # 0
  /\ IF hold[h] > 0 /\ TyOf(hold[h]) = T
     THEN /\ cells' = [cells EXCEPT ![hold[h]].moved = TRUE]
          /\ out' = out \cup {hold[h]}
          /\ hold' = [hold EXCEPT ![h] = 0]
          /\ bret' = [op |-> "try_cast", h |-> h, ty |-> T, res |-> "ok", kind |-> cells[hold[h]].kind, cell |-> hold[h]]
     ELSE /\ bret' = [op |-> "try_cast", h |-> h, ty |-> T, res |-> "err", kind |-> "", cell |-> 0]
          /\ UNCHANGED <<hold, cells, out>>

(* msg.try_content::<T>() / can_cast::<T>() / length(): pure *)
Peek(h, T) ==
  /\ Step /\ hold[h] # 0
  /\ LET hit == hold[h] > 0 /\ TyOf(hold[h]) = T IN
     bret' = [op |-> "peek", h |-> h, ty |-> T, res |-> IF hit THEN "some" ELSE "none",
              kind |-> IF hit THEN cells[hold[h]].kind ELSE "", len |-> LenOf(h)]
  /\ UNCHANGED <<hold, cells, out>>

DropMsg(h) ==
  /\ Step /\ hold[h] # 0
  /\ cells' = IF hold[h] > 0 THEN [cells EXCEPT ![hold[h]].drops = @ + 1] ELSE cells
  /\ hold' = [hold EXCEPT ![h] = 0]
  /\ bret' = [op |-> "drop", h |-> h, cell |-> IF hold[h] > 0 THEN hold[h] ELSE 0]
  /\ UNCHANGED out

(* the client drops a value it obtained from a cast *)
DropOut(c) ==
  /\ Step /\ c \in out
  /\ out' = out \ {c}
  /\ cells' = [cells EXCEPT ![c].drops = @ + 1]
  /\ bret' = [op |-> "drop_out", cell |-> c]
  /\ UNCHANGED hold

Next == \/ \E h \in Handles : (\E k \in Kinds : New(h, k) \/ Replace(h, k)) \/ NewEmpty(h) \/ DropMsg(h)
        \/ \E h, g \in Handles : TryClone(h, g)
        \/ \E h \in Handles, T \in {Table[k].ty : k \in Kinds} \cup {"u64"} : TryCast(h, T) \/ Peek(h, T)
        \/ \E c \in out : DropOut(c)
Spec == Init /\ [][Next]_bvars

-----------------------------------------------------------------------------
Held == {hold[h] : h \in Handles} \ {0, -1}
(* every cell is dropped at most once, and exactly once when nobody holds it any more *)
DropAtMostOnce == \A c \in 1..Len(cells) : cells[c].drops <= 1
DropWhenUnheld == \A c \in 1..Len(cells) : (cells[c].drops = 1) <=> (c \notin Held /\ c \notin out)
NoAlias        == \A h, g \in Handles : (h # g /\ hold[h] > 0) => hold[h] # hold[g]
(* no operation succeeds at a type other than the one the body was created with *)
TypeSafe == [][(bret'.op \in {"try_cast", "peek"} /\ bret'.res \in {"ok", "some"}) => Table[bret'.kind].ty = bret'.ty]_bvars
(* a failed cast leaves the message intact *)
FailedCastPure == [][(bret'.op = "try_cast" /\ bret'.res = "err") => (hold' = hold /\ cells' = cells)]_bvars
=============================================================================
