------------------------------- MODULE FES -------------------------------
(***************************************************************************)
(* Contract of the future event set (des-cqueue::CQueue as seen through    *)
(* its public API; des::runtime::FutureEventSet on top of it).             *)
(*                                                                         *)
(* Properties C01 (time order, exactly once, cancel, len), C03 (tie rule)  *)
(* and the payload half of C15 (every payload leaves the queue exactly     *)
(* once) are invariants / action properties of this module.                *)
(*                                                                         *)
(* The module depends on time values only through <, = and "equals the     *)
(* current time", so any strictly monotone embedding of Times into         *)
(* Durations must give the same observable results (DESIGN 2.3).           *)
(***************************************************************************)
EXTENDS Naturals, FiniteSets, Sequences, TLC

CONSTANTS Times,      \* abstract time values (a finite set of naturals)
          MaxId       \* ids 0..MaxId may be handed out

VARIABLES pending,    \* set of [id, t, cls] still in the queue
          cur,        \* time of the last event fetched (0 initially)
          nid,        \* next id = number of successful adds
          held,       \* ids whose EventHandle has not been consumed by cancel
          pay,        \* id -> "none" | "queued" | "returned" | "dropped"
          ret         \* observable result of the last operation

fvars == <<pending, cur, nid, held, pay, ret>>

Ids == 0..MaxId

(* The dispatch key.  cls = 0: scheduled for the current instant (FIFO,    *)
(* first); cls = 1: everything else, in scheduling order.  This *is* C03.  *)
Less(a, b) == \/ a.t < b.t
              \/ (a.t = b.t /\ a.cls < b.cls)
              \/ (a.t = b.t /\ a.cls = b.cls /\ a.id < b.id)

MinOf(S) == CHOOSE e \in S : \A f \in S : f = e \/ Less(e, f)

QLen == Cardinality(pending)

Init == /\ pending = {} /\ cur = 0 /\ nid = 0 /\ held = {}
        /\ pay = [i \in Ids |-> "none"]
        /\ ret = [op |-> "init"]

(* add(t): accepted iff t >= cur, otherwise panics and changes nothing.    *)
Add(t) ==
  /\ nid <= MaxId
  /\ IF t >= cur
     THEN /\ pending' = pending \cup {[id |-> nid, t |-> t, cls |-> IF t = cur THEN 0 ELSE 1]}
          /\ nid' = nid + 1
          /\ held' = held \cup {nid}
          /\ pay' = [pay EXCEPT ![nid] = "queued"]
          /\ ret' = [op |-> "add", t |-> t, res |-> "ok", id |-> nid, len |-> QLen + 1, time |-> cur]
          /\ UNCHANGED cur
     ELSE /\ ret' = [op |-> "add", t |-> t, res |-> "panic", id |-> 0, len |-> QLen, time |-> cur]
          /\ UNCHANGED <<pending, cur, nid, held, pay>>

(* fetch_next on a non-empty queue: the minimum of the dispatch key.       *)
Fetch ==
  /\ pending # {}
  /\ LET e == MinOf(pending) IN
       /\ pending' = pending \ {e}
       /\ cur' = e.t
       /\ pay' = [pay EXCEPT ![e.id] = "returned"]
       /\ ret' = [op |-> "fetch", id |-> e.id, t |-> e.t, len |-> QLen - 1, time |-> e.t]
       /\ UNCHANGED <<nid, held>>

(* cancel(handle i): consumes the handle.  Removes the event iff it is     *)
(* still pending; cancelling a fetched event changes nothing.              *)
Cancel(i) ==
  /\ i \in held
  /\ held' = held \ {i}
  /\ IF \E e \in pending : e.id = i
     THEN /\ pending' = {e \in pending : e.id # i}
          /\ pay' = [pay EXCEPT ![i] = "dropped"]
          /\ ret' = [op |-> "cancel", id |-> i, len |-> QLen - 1, time |-> cur]
     ELSE /\ ret' = [op |-> "cancel", id |-> i, len |-> QLen, time |-> cur]
          /\ UNCHANGED <<pending, pay>>
  /\ UNCHANGED <<cur, nid>>

(* the queue itself is dropped: every queued payload is dropped.           *)
DropAll ==
  /\ ret.op # "dropall"
  /\ pending' = {}
  /\ pay' = [i \in Ids |-> IF pay[i] = "queued" THEN "dropped" ELSE pay[i]]
  /\ held' = {}
  /\ ret' = [op |-> "dropall", dropped |-> {e.id : e \in pending}]
  /\ UNCHANGED <<cur, nid>>

Alive == ret.op # "dropall"

Next == Alive /\ ((\E t \in Times : Add(t)) \/ Fetch \/ (\E i \in Ids : Cancel(i)) \/ DropAll)

Spec == Init /\ [][Next]_fvars

-----------------------------------------------------------------------------
(* Invariants and action properties (what C01 / C03 / C15 state).          *)

TypeOK == /\ \A e \in pending : e.id \in 0..nid-1 /\ e.t \in Times /\ e.cls \in {0, 1}
          /\ held \subseteq 0..nid-1
          /\ cur \in Times \cup {0}

NoPast      == \A e \in pending : e.t >= cur
ClsZeroAtCur == \A e \in pending : e.cls = 0 => e.t = cur
UniqueIds   == \A e, f \in pending : e.id = f.id => e = f
PayInv      == \A i \in Ids :
                  /\ (pay[i] = "queued") <=> (\E e \in pending : e.id = i)
                  /\ (pay[i] = "none") <=> (i >= nid)

(* time order *)
Monotone == [][cur' >= cur]_fvars
(* exactly once: a payload never leaves a final state and never returns to the queue *)
ExactlyOnce == [][\A i \in Ids :
                    /\ (pay[i] \in {"returned", "dropped"} => pay'[i] = pay[i])
                    /\ (pay[i] = "queued" => pay'[i] \in {"queued", "returned", "dropped"})]_fvars
(* a fetch returns the timestamp it was scheduled with and no cancelled event *)
FetchSound == [][ret'.op = "fetch" /\ pending' # pending =>
                    \E e \in pending : e.id = ret'.id /\ e.t = ret'.t /\ pay[e.id] = "queued"]_fvars
(* len = scheduled - cancelled - fetched *)
LenLaw == QLen = nid - Cardinality({i \in Ids : pay[i] \in {"returned", "dropped"}})
=============================================================================
