---------------------------- MODULE MC_AsyncFam ----------------------------
(* Large families for C06 (kept apart from the exhaustive menus: TLC evaluates every constant   *)
(* definition of a module at start-up).                                                         *)
EXTENDS AsyncMod
CONSTANT NT
TasksN == 1..NT
St(k, a, b, m) == [k |-> k, a |-> a, b |-> b, m |-> m]
Sleep(d) == St("sleep", d, 0, "")
Send(ch) == St("send", ch, 0, "")
Recv(ch) == St("recv", ch, 0, "")
(* C06 families over N = Cardinality(Tasks) tasks *)
N == Cardinality(Tasks)
(* wake chain: task 1 sleeps, then every task wakes its successor; everything happens in the instant task 1 wakes *)
ProgsChain == {[t \in Tasks |-> IF t = 1 THEN <<Sleep(1), Send(2)>> ELSE IF t < N THEN <<Recv(t), Send(t + 1)>> ELSE <<Recv(t)>>]}
(* fan-out: task 1 wakes all others in one poll *)
ProgsFan == {[t \in Tasks |-> IF t = 1 THEN <<Sleep(1)>> \o [i \in 1..(N - 1) |-> Send(i + 1)] ELSE <<Recv(t), Sleep(1)>>]}
(* the fan-out happens in the second incarnation of the module (restart requested by task 1) *)
Restart(d) == St("restart", d, 0, "")
ProgsFanRestart == {[t \in Tasks |-> IF t = 1 THEN <<Restart(1), Sleep(1)>> \o [i \in 1..(N - 1) |-> Send(i + 1)] ELSE <<Recv(t), Sleep(1)>>]}
(* one receiver drains many messages in one poll; the sender produces them in one poll *)
ProgsDrainK(k) == {[t \in Tasks |-> IF t = 1 THEN <<Sleep(1)>> \o [i \in 1..k |-> Send(2)] \o <<Sleep(1)>>
                                    ELSE IF t = 2 THEN [i \in 1..k |-> Recv(2)] \o <<Sleep(1)>> ELSE <<Sleep(2)>>]}
ProgsDrain == ProgsDrainK(40)
ProgsDrain128 == ProgsDrainK(128)      \* tokio's cooperative budget: 128 operations per poll
ProgsDrain129 == ProgsDrainK(129)
ProgsDrain300 == ProgsDrainK(300)
(* many tasks whose timers expire at the same instant *)
ProgsSameDeadline == {[t \in Tasks |-> <<Sleep(2), Sleep(1)>>]}
=============================================================================
