---------------------------- MODULE MC_Runtime ----------------------------
(* Constant definitions (limit trees, handler menus) for model checking and generation. *)
EXTENDS Runtime
LNone == [k |-> "none"]
EC(n) == [k |-> "ec", n |-> n]
ST(t) == [k |-> "st", t |-> t]
And(a, b) == [k |-> "and", l |-> a, r |-> b]
Or(a, b) == [k |-> "or", l |-> a, r |-> b]

LimitsNone == {LNone}
LimitsAll == {LNone, EC(0), EC(1), EC(2), EC(3), ST(0), ST(1), ST(2), ST(3),
              And(EC(1), ST(1)), And(EC(2), ST(0)), Or(EC(2), ST(1)), Or(EC(3), ST(0)),
              Or(And(EC(1), ST(1)), EC(3)), And(Or(EC(1), ST(2)), ST(1)),
              Or(EC(3), EC(1)), Or(EC(1), EC(3)), Or(ST(2), ST(0)), Or(ST(0), ST(2)), Or(Or(EC(3), ST(2)), EC(1))}
LimitsSome == {LNone, EC(2), ST(1), Or(EC(3), ST(2))}

MenuSmall == {<<>>, <<0>>, <<1>>, <<0, 0>>, <<0, 1>>, <<2, 0>>}
MenuPast  == {<<>>, <<0>>, <<1>>, <<0, 0>>, <<1, 0>>, <<-1>>, <<-1, 0>>, <<2>>}
MenuTies  == {<<>>, <<0>>, <<0, 0>>, <<1, 1>>, <<0, 1, 0>>, <<1, 0, 1>>}

=============================================================================
