---------------------------- MODULE NdlGrammar ----------------------------
(***************************************************************************)
(* C18, totality of parsing: the string-typed positions of a description   *)
(* (type clauses, field definitions, connection endpoints) accept or       *)
(* refuse every string - they never crash.  Strings are token sequences;   *)
(* the operators below say which ones are well formed (transcribed from    *)
(* the FromStr impls of des-net-utils/src/ndl/def.rs, with "refused"       *)
(* where the pinned code hit an assertion).                                *)
(***************************************************************************)
EXTENDS Naturals, Sequences, FiniteSets, TLC, Json

CONSTANTS Tokens, MaxLen, Kinds
VARIABLES kind, ts

Has(s, t) == \E i \in 1..Len(s) : s[i] = t
FirstIdx(s, t) == CHOOSE i \in 1..Len(s) : s[i] = t /\ \A j \in 1..(i - 1) : s[j] # t
RECURSIVE TrimEnd(_, _)
TrimEnd(s, t) == IF s # <<>> /\ s[Len(s)] = t THEN TrimEnd(SubSeq(s, 1, Len(s) - 1), t) ELSE s
(* split a token sequence at every occurrence of token t *)
RECURSIVE Split(_, _)
Split(s, t) == IF ~Has(s, t) THEN <<s>> ELSE <<SubSeq(s, 1, FirstIdx(s, t) - 1)>> \o Split(SubSeq(s, FirstIdx(s, t) + 1, Len(s)), t)

IsNumber(s) == s # <<>> /\ \A i \in 1..Len(s) : s[i] = "3"

(* FieldDef::from_str *)
FieldOK(s) == IF s # <<>> /\ s[Len(s)] = "]"
              THEN Has(s, "[") /\ IsNumber(TrimEnd(SubSeq(s, FirstIdx(s, "[") + 1, Len(s)), "]"))
              ELSE TRUE
(* ConnectionEndpointDef::from_str *)
EndpointOK(s) == \A i \in 1..Len(Split(s, "/")) : FieldOK(Split(s, "/")[i])
(* TypClause<Arg>::from_str; generic = TRUE for module keys (arguments must be `binding <- bound`) *)
TypOK(s, generic) ==
  IF ~Has(s, "(") THEN TRUE
  ELSE LET rem == SubSeq(s, FirstIdx(s, "(") + 1, Len(s)) IN
       /\ rem # <<>> /\ rem[Len(rem)] = ")"
       /\ (generic => \A i \in 1..Len(Split(TrimEnd(rem, ")"), ", ")) : Has(Split(TrimEnd(rem, ")"), ", ")[i], " <- "))

Accepts == CASE kind = "modkey" -> TypOK(ts, TRUE)
             [] kind = "subtyp" -> TypOK(ts, FALSE)
             [] kind = "gate" -> FieldOK(ts)
             [] kind = "subname" -> FieldOK(ts)
             [] kind = "peer" -> EndpointOK(ts)

Init == kind \in Kinds /\ ts \in UNION {[1..n -> Tokens] : n \in 0..MaxLen}
Next == UNCHANGED <<kind, ts>>
Spec == Init /\ [][Next]_<<kind, ts>>
Emit == PrintT(<<"REPLAY", ToJson([kind |-> kind, tokens |-> ts, ok |-> Accepts])>>)
=============================================================================
