CONSTANTS Times = {0,1,2,3} MaxId = 3
SPECIFICATION Spec
INVARIANTS TypeOK NoPast ClsZeroAtCur UniqueIds PayInv LenLaw
PROPERTIES Monotone ExactlyOnce FetchSound
CHECK_DEADLOCK FALSE
