----------------------------- MODULE Gen_FES -----------------------------
(* Direction G: enumerate every behaviour of FES up to Depth operations    *)
(* and print it (operations with the results the contract demands).        *)
EXTENDS FES, Json
CONSTANT Depth
VARIABLE hist
gvars == <<fvars, hist>>
GInit == Init /\ hist = <<>>
GNext == /\ Len(hist) < Depth
         /\ \/ (Alive /\ Len(hist) < Depth - 1 /\ ((\E t \in Times : Add(t)) \/ Fetch \/ (\E i \in Ids : Cancel(i))))
            \/ (Alive /\ Len(hist) >= 1 /\ DropAll)
         /\ hist' = Append(hist, ret')
GSpec == GInit /\ [][GNext]_gvars
(* every behaviour ends with DropAll (the queue is dropped), so maximal    *)
(* behaviours are exactly the states with ret.op = "dropall".              *)
Emit == (ret.op = "dropall") => PrintT(<<"REPLAY", ToJson(hist)>>)
=============================================================================
