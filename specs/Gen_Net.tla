------------------------------- MODULE Gen_Net -------------------------------
(* Direction G for Net.tla: the scenario TLC chose (scripts per module) and the observation log. *)
EXTENDS MC_Net, Json
Obs == [scripts |-> scripts, log |-> log, err |-> err, endfail |-> EndFail, tend |-> now, ninv |-> ninv, dead |-> dead]
Emit == (phase = "done") => PrintT(<<"REPLAY", ToJson(Obs)>>)
=============================================================================
