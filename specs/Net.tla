-------------------------------- MODULE Net --------------------------------
(***************************************************************************)
(* Reference interpreter of des::net: module events, gate chains with      *)
(* channels, processing elements, shutdown / restart, panics.              *)
(*                                                                         *)
(* One action (Step) per dispatched runtime event, transcribed from        *)
(* des/src/net/runtime/{events,ctx}.rs and des/src/net/channel.rs:         *)
(*   msg    HandleMessageEvent       exit    MessageExitingConnection      *)
(*   unbusy ChannelUnbusyNotif       restart ModuleRestartEvent            *)
(* A *scenario* is the topology (constants) plus what the scripted module  *)
(* handlers do: at every handler invocation TLC picks a command list from  *)
(* the module's menu (behaviour-as-scenario).  The observation log is what *)
(* harness-supplied modules and processing elements can see.               *)
(*                                                                         *)
(* Serves C03 (emission order), C07 (channels), C08 (delivery), C09        *)
(* (shutdown/restart), C12 (start/end order), C13 (panics), C14            *)
(* (processing elements).                                                  *)
(***************************************************************************)
EXTENDS Integers, Sequences, FiniteSets, TLC

CONSTANTS
  Mods,        \* sequence of module names in module-tree order
  Stages,      \* [module -> number of start-up stages]
  Stack,       \* [module -> number of processing elements]
  Catch,       \* [module -> BOOLEAN]  initial stereotype: catches panics
  EndFail,     \* set of modules whose at_sim_end returns Err
  Route,       \* [start gate -> sequence of hops [own |-> owner of the gate reached, ch |-> channel id or 0]]
  GateOwner,   \* [start gate -> owning module]
  Chans,       \* set of channel ids
  TxOf,        \* [channel -> [size -> transmission ticks]]
  LatOf,       \* [channel -> latency ticks]
  PolicyOf,    \* [channel -> "drop" | "queue"]
  LimitOf,     \* [channel -> byte limit, -1 = unbounded]
  BytesOf,     \* [size -> message length in bytes]
  Menu,        \* [module -> set of command lists]
  StartMenu,   \* [module -> set of command lists usable in at_sim_start]
  MaxInv,      \* bound on handler invocations
  MaxT,        \* events later than MaxT are not dispatched (run limit)
  FixDrain,    \* TRUE: un-busy keeps starting queued messages while the channel stays idle (repair of D7)
  Inject,      \* sequence of messages put into the event set from outside before the run (Runtime::handle_message_on /
               \* add_message_onto): [k |-> "msg", m |-> module] or [k |-> "exit", g |-> start gate], with t, size, eat
  ReplayScripts \* <<>>: handlers choose from the menus; otherwise a sequence of scenarios [module -> sequence of command
               \* lists]: the initial state picks one and every handler invocation executes the next recorded list

VARIABLES
  now, fes, seq, active, inc, err, chan, nextMsg, ninv,
  dead,        \* [module -> "no" | "dead" | "pending" | "revived"]: has panicked; "pending" = a restart requested by the
               \* module itself is (still) scheduled; "revived" = that restart has run (finding F-C13-1)
  catching,    \* [module -> BOOLEAN] current stereotype (a handler may change its own)
  scripts,     \* [module -> sequence of chosen command lists] (the scenario)
  log,         \* observation log
  phase,       \* "boot" | "run" | "done"
  boot,        \* <<stage, index into Mods>> during start-up
  scn          \* index of the replayed scenario (0 = none)

nvars == <<now, fes, seq, active, inc, err, dead, chan, nextMsg, ninv, catching, scripts, log, phase, boot, scn>>

ModSet == {Mods[i] : i \in 1..Len(Mods)}

Less(a, b) == \/ a.t < b.t
              \/ (a.t = b.t /\ a.cls < b.cls)
              \/ (a.t = b.t /\ a.cls = b.cls /\ a.seq < b.seq)
MinOf(S) == CHOOSE e \in S : \A f \in S : f = e \/ Less(e, f)

(* ---- a "world" W is the part of the state that executing code can change ---- *)
World == [fes |-> fes, seq |-> seq, chan |-> chan, log |-> log, nextMsg |-> nextMsg, active |-> active]

(* add one event to the event set at the current instant `cur` *)
AddEv(W, cur, ev, t) ==
  [W EXCEPT !.fes = @ \cup {[t |-> t, cls |-> IF t = cur THEN 0 ELSE 1, seq |-> W.seq, ev |-> ev]},
            !.seq = @ + 1]

(* Channel::send_message(msg, via = hop `pos` of route r) with event sink `out` = sequence of <<ev, t>> *)
(* returns <<channel state', out'>>                                                                       *)
ChanSend(cs, ch, msg, r, pos, t, out) ==
  IF cs.busy
  THEN IF PolicyOf[ch] = "drop" THEN <<cs, out>>
       ELSE IF LimitOf[ch] >= 0 /\ cs.acc + BytesOf[msg.size] > LimitOf[ch] THEN <<cs, out>>
       ELSE <<[cs EXCEPT !.q = Append(@, [msg |-> msg, r |-> r, pos |-> pos]), !.acc = @ + BytesOf[msg.size],
                         !.accs = IF msg.id \in {@[i] : i \in 1..Len(@)} THEN @ ELSE Append(@, msg.id)], out>>
  ELSE LET tx == TxOf[ch][msg.size]
           (* the transmission starts: what a ChannelProbe sees (pseudo event, routed into the log by Flush) *)
           o0 == Append(out, <<[k |-> "tx", ch |-> ch, id |-> msg.id], t>>)
           o1 == IF tx # 0 THEN Append(o0, <<[k |-> "unbusy", ch |-> ch], t + tx>>) ELSE o0
           o2 == Append(o1, <<[k |-> "exit", r |-> r, pos |-> pos, msg |-> msg], t + tx + LatOf[ch]>>) IN
       <<[cs EXCEPT !.busy = (tx # 0), !.until = IF tx # 0 THEN t + tx ELSE 0,
                    !.accs = IF msg.id \in {@[i] : i \in 1..Len(@)} THEN @ ELSE Append(@, msg.id)], o2>>

(* MessageExitingConnection::handle_with_sink: the message is at hop `pos` of route r (0 = start gate) *)
(* returns <<chan', out'>>                                                                              *)
OwnerAt(r, pos) == IF pos = 0 THEN GateOwner[r] ELSE Route[r][pos].own
RECURSIVE Walk(_, _, _, _, _, _, _)
Walk(chs, act, msg, r, pos, t, out) ==
  IF pos = Len(Route[r])
  THEN <<chs, Append(out, <<[k |-> "msg", m |-> OwnerAt(r, pos), msg |-> msg], t>>)>>
  ELSE IF ~act[OwnerAt(r, pos)] THEN <<chs, out>>                      \* gate of an inactive module: dropped
  ELSE LET nx == Route[r][pos + 1] IN
       IF nx.ch # 0
       THEN LET res == ChanSend(chs[nx.ch], nx.ch, msg, r, pos + 1, t, out) IN
            <<[chs EXCEPT ![nx.ch] = res[1]], res[2]>>
       ELSE Walk(chs, act, msg, r, pos + 1, t, out)

(* the stereotype in force when the panic is judged: the one the handler left behind *)
NewCatch(m, S) == IF S.setcatch = <<>> THEN catching ELSE [catching EXCEPT ![m] = S.setcatch[1]]

(* ---- executing a handler's command list: returns [chan, out (buffered events), nextMsg, shut, panic] ---- *)
RECURSIVE Exec(_, _, _, _)
Exec(m, t, cmds, S) ==
  IF cmds = <<>> \/ S.panic THEN S
  ELSE LET c == Head(cmds) IN
    IF c.c = "send" THEN
      LET msg == [id |-> S.nextMsg, size |-> c.size, eat |-> c.eat, from |-> m]
          res == Walk(S.chan, S.act, msg, c.g, 0, t, S.out) IN
      Exec(m, t, Tail(cmds), [S EXCEPT !.chan = res[1], !.out = res[2], !.nextMsg = @ + 1])
    ELSE IF c.c = "sendin" THEN
      LET msg == [id |-> S.nextMsg, size |-> c.size, eat |-> c.eat, from |-> m] IN
      Exec(m, t, Tail(cmds), [S EXCEPT !.out = Append(@, <<[k |-> "exit", r |-> c.g, pos |-> 0, msg |-> msg], t + c.d>>),
                                        !.nextMsg = @ + 1])
    ELSE IF c.c = "sched" THEN
      LET msg == [id |-> S.nextMsg, size |-> 1, eat |-> c.eat, from |-> m] IN
      Exec(m, t, Tail(cmds), [S EXCEPT !.out = Append(@, <<[k |-> "msg", m |-> m, msg |-> msg], t + c.d>>),
                                        !.nextMsg = @ + 1])
    ELSE IF c.c = "setcatch" THEN Exec(m, t, Tail(cmds), [S EXCEPT !.setcatch = <<c.d = 1>>])
    ELSE IF c.c = "shutdown" THEN Exec(m, t, Tail(cmds), [S EXCEPT !.shut = <<"down">>])
    ELSE IF c.c = "restart" THEN Exec(m, t, Tail(cmds), [S EXCEPT !.shut = <<"restart", t + c.d>>])
    ELSE (* panic: judged by the stereotype in force at that moment (Harness::catch) *)
         [S EXCEPT !.panic = TRUE, !.dead = TRUE, !.uncaught = @ \/ ~NewCatch(m, S)[m]]

(* flush a sequence of <<ev, t>> into the event set in emission order *)
RECURSIVE Flush(_, _, _)
Flush(W, cur, out) ==
  IF out = <<>> THEN W
  ELSE LET x == out[1] IN
       Flush(IF x[1].k = "tx" THEN [W EXCEPT !.log = Append(@, [o |-> "tx", ch |-> x[1].ch, id |-> x[1].id, t |-> cur])]
             ELSE AddEv(W, cur, x[1], x[2]), cur, Tail(out))

(* processing-element brackets around one module event; `msgid` = -1 for events without message *)
RECURSIVE PEUp(_, _, _, _, _)
PEUp(m, i, k, msg, alive) ==   \* log entries of elements i..k-1 going up; returns <<entries, alive'>>
  IF i >= k THEN <<<<>>, alive>>
  ELSE LET st == <<[o |-> "pe", m |-> m, i |-> i, e |-> "start", id |-> -1]>>
           inn == IF alive THEN <<[o |-> "pe", m |-> m, i |-> i, e |-> "in", id |-> msg.id]>> ELSE <<>>
           alive2 == alive /\ msg.eat # i + 1
           rest == PEUp(m, i + 1, k, msg, alive2) IN
       <<st \o inn \o rest[1], rest[2]>>
RECURSIVE PEDown(_, _)
PEDown(m, k) == IF k = 0 THEN <<>> ELSE <<[o |-> "pe", m |-> m, i |-> k - 1, e |-> "end", id |-> -1]>> \o PEDown(m, k - 1)

NoMsg == [id |-> -1, size |-> 1, eat |-> 0, from |-> ""]

(* One handler invocation on module m at time t (message delivery or a start-up stage): processing- *)
(* element brackets, the handler's commands, the panic rule.  S carries what buf_process will need:  *)
(* buffered events, shutdown request, panic flag.                                                    *)
(* panic: the current invocation panicked; dead / uncaught: some invocation of this event panicked / was reported *)
S0Of(W) == [chan |-> W.chan, out |-> <<>>, nextMsg |-> W.nextMsg, shut |-> <<>>, panic |-> FALSE, dead |-> FALSE, uncaught |-> FALSE,
            act |-> W.active, setcatch |-> <<>>]


(* what element 0 emits for a message tagged `eat` = 10 ("echo"): one self-message from its incoming hook (before the  *)
(* handler runs) and one from its event_end hook (after it): emissions of elements and handler keep program order    *)
EchoCmd == [c |-> "sched", g |-> "", d |-> 1, size |-> 1, eat |-> 0]

Invoke(W, S, m, t, what, msg, hasMsg, cmds) ==
  LET up == PEUp(m, 0, Stack[m], msg, hasMsg)
      reaches == (~hasMsg) \/ up[2]                      \* the handler runs unless an element consumed the message
      echo == hasMsg /\ msg.eat = 10 /\ Stack[m] >= 1
      Sa == [S EXCEPT !.chan = W.chan, !.nextMsg = W.nextMsg, !.act = W.active, !.panic = FALSE]
      Sa1 == IF echo THEN Exec(m, t, <<EchoCmd>>, Sa) ELSE Sa
      Sb == IF reaches THEN Exec(m, t, cmds, Sa1) ELSE Sa1
      (* module a also reports what Channel::is_busy / transmission_finish_time say about its outgoing channel *)
      hlog == IF reaches THEN <<what>> \o (IF m = "a" /\ 1 \in Chans THEN <<[o |-> "ch", m |-> m, busy |-> W.chan[1].busy, until |-> W.chan[1].until]>> ELSE <<>>)
              ELSE <<>>
      (* a panic that is reported (non-catching stereotype) leaves the event at once: no event_end;   *)
      (* a caught panic lets the event finish normally                                             *)
      down == IF Sb.panic /\ ~NewCatch(m, Sb)[m] THEN <<>> ELSE PEDown(m, Stack[m])
      Sc == IF echo /\ down # <<>> THEN [Exec(m, t, <<EchoCmd>>, [Sb EXCEPT !.panic = FALSE]) EXCEPT !.panic = Sb.panic] ELSE Sb
      W1 == [W EXCEPT !.chan = Sc.chan, !.nextMsg = Sc.nextMsg, !.log = @ \o up[1] \o hlog \o down,
                      !.active = IF Sc.panic THEN [@ EXCEPT ![m] = FALSE] ELSE @] IN
  [W |-> W1, S |-> Sc, ran |-> reaches]

(* the event ends with the module being reset (shutdown request consumed by buf_process): inc counts the *)
(* incarnations of the module's state = 1 + number of Module::reset calls                              *)
(* (a panic cancels a request made earlier in the same event: Harness::catch clears it, the module stays down)    *)
Resets(S) == S.shut # <<>> /\ ~S.dead
HasRestart(F, m) == \E e \in F : e.ev.k = "restart" /\ e.ev.m = m
DeadAfter(m, S, W) ==        \* W: the world after the event (its event set holds the restarts to come)
  LET pend == HasRestart(W.fes, m) IN
  [dead EXCEPT ![m] = IF @ = "revived" THEN @
                      ELSE IF S.dead \/ @ # "no" THEN (IF pend \/ @ = "pending" THEN "pending" ELSE "dead")
                      ELSE @]
IncAfter(m, S) == IF Resets(S) THEN [inc EXCEPT ![m] = @ + 1] ELSE inc

(* buf_process: flush buffered events in emission order, then consume a shutdown request *)
Finish(W, m, t, S) ==
  LET W2 == Flush(W, t, S.out) IN
  IF S.shut = <<>> \/ S.dead THEN W2
  ELSE LET W3 == [W2 EXCEPT !.active = [@ EXCEPT ![m] = FALSE], !.log = Append(@, [o |-> "reset", m |-> m, t |-> t])] IN
       IF S.shut[1] = "restart" THEN AddEv(W3, t, [k |-> "restart", m |-> m], S.shut[2]) ELSE W3

(* ChannelUnbusyNotif: the channel becomes idle and starts the head of its queue; pinned code starts *)
(* exactly one message even if its transmission time is zero (D7), the repair keeps draining         *)
RECURSIVE Drain(_, _, _, _)
Drain(cs, ch, t, out) ==
  IF cs.q = <<>> \/ cs.busy THEN <<cs, out>>
  ELSE LET x == Head(cs.q)
           cs1 == [cs EXCEPT !.q = Tail(@), !.acc = @ - BytesOf[x.msg.size]]
           res == ChanSend(cs1, ch, x.msg, x.r, x.pos, t, out) IN
       IF FixDrain THEN Drain(res[1], ch, t, res[2]) ELSE res

(* ModuleRestartEvent: all stages back to back sharing one event buffer; a panic ends the loop: a reported *)
(* one through `?` in module_restart, a caught one because it has deactivated the module                   *)
RECURSIVE RestartAll(_, _, _, _, _, _, _)
RestartAll(W, S, m, t, stage, cs, used) ==
  IF stage >= Stages[m] \/ S.dead THEN [W |-> W, S |-> S, used |-> used]
  ELSE LET R == Invoke(W, S, m, t, [o |-> "start", m |-> m, stage |-> stage, t |-> t, inc |-> inc[m]], NoMsg, FALSE, cs[stage + 1]) IN
       RestartAll(R.W, R.S, m, t, stage + 1, cs, Append(used, cs[stage + 1]))

-----------------------------------------------------------------------------
(* messages injected from outside before the run, in call order; ids 501, 502, ... *)
RECURSIVE InjectAll(_, _)
InjectAll(W, i) ==
  IF i > Len(Inject) THEN W
  ELSE LET x == Inject[i]
           msg == [id |-> 500 + i, size |-> x.size, eat |-> x.eat, from |-> ""]
           ev == IF x.k = "msg" THEN [k |-> "msg", m |-> x.m, msg |-> msg] ELSE [k |-> "exit", r |-> x.g, pos |-> 0, msg |-> msg] IN
       InjectAll(AddEv(W, 0, ev, x.t), i + 1)

Init == /\ now = 0
        /\ LET W == InjectAll([fes |-> {}, seq |-> 0], 1) IN fes = W.fes /\ seq = W.seq
        /\ active = [m \in ModSet |-> TRUE] /\ inc = [m \in ModSet |-> 1] /\ err = {} /\ dead = [m \in ModSet |-> "no"]
        /\ chan = [c \in Chans |-> [busy |-> FALSE, until |-> 0, q |-> <<>>, acc |-> 0, accs |-> <<>>, dlv |-> <<>>]]
        /\ nextMsg = 1 /\ ninv = 0 /\ scripts = [m \in ModSet |-> <<>>] /\ catching = Catch
        /\ log = <<>> /\ phase = "boot" /\ boot = <<0, 1>>
        /\ scn \in (IF ReplayScripts = <<>> THEN {0} ELSE 1..Len(ReplayScripts))

MaxStage == LET S == {Stages[m] : m \in ModSet} \cup {1} IN CHOOSE x \in S : \A y \in S : y <= x

Commit(W) == /\ fes' = W.fes /\ seq' = W.seq /\ chan' = W.chan /\ log' = W.log
             /\ nextMsg' = W.nextMsg /\ active' = W.active

Counts(menu) == IF Cardinality(menu) > 1 THEN 1 ELSE 0      \* invocations without a choice do not use up the bound
(* what the next handler invocation of module m may do: a menu entry, or (replay) the next recorded list *)
Recorded(m, k) == IF k <= Len(ReplayScripts[scn][m]) THEN ReplayScripts[scn][m][k] ELSE <<>>
ChoicesFor(m, menu) == IF scn > 0 THEN {Recorded(m, Len(scripts[m]) + 1)}
                       ELSE IF ninv < MaxInv THEN menu ELSE {<<>>}      \* scripts end: later invocations do nothing

(* start-up: stage-major over the module-tree order *)
BootStep ==
  /\ phase = "boot"
  /\ LET stage == boot[1]  idx == boot[2] IN
     IF stage >= MaxStage
     THEN /\ phase' = "run" /\ UNCHANGED <<now, fes, seq, active, inc, err, dead, chan, nextMsg, ninv, catching, scripts, log, boot, scn>>
     ELSE LET m == Mods[idx]
              nxt == IF idx = Len(Mods) THEN <<stage + 1, 1>> ELSE <<stage, idx + 1>> IN
          /\ boot' = nxt
          /\ IF stage < Stages[m] /\ active[m]          \* a module that shut down or panicked in an earlier stage is skipped
             THEN \E cmds \in ChoicesFor(m, StartMenu[m]) :
                    LET R == Invoke(World, S0Of(World), m, 0, [o |-> "start", m |-> m, stage |-> stage, t |-> 0, inc |-> inc[m]], NoMsg, FALSE, cmds) IN
                    /\ Commit(Finish(R.W, m, 0, R.S))
                    /\ catching' = NewCatch(m, R.S)
                    /\ err' = (IF R.S.uncaught THEN err \cup {m} ELSE err) /\ dead' = DeadAfter(m, R.S, Finish(R.W, m, 0, R.S))
                    /\ scripts' = [scripts EXCEPT ![m] = Append(@, cmds)]
                    /\ ninv' = ninv + Counts(StartMenu[m])
                    /\ inc' = IncAfter(m, R.S)
             ELSE UNCHANGED <<fes, seq, chan, log, nextMsg, active, err, dead, scripts, ninv, catching, inc>>
          /\ UNCHANGED <<now, phase, scn>>

CanRun == phase = "run" /\ fes # {} /\ MinOf(fes).t <= MaxT

Step ==
  /\ CanRun
  /\ LET e == MinOf(fes)
         W0 == [World EXCEPT !.fes = @ \ {e}] IN
     /\ now' = e.t
     /\ IF e.ev.k = "unbusy" THEN
          LET idle == [W0.chan[e.ev.ch] EXCEPT !.busy = FALSE, !.until = 0]
              res == Drain(idle, e.ev.ch, e.t, <<>>) IN
          /\ Commit(Flush([W0 EXCEPT !.chan = [@ EXCEPT ![e.ev.ch] = res[1]]], e.t, res[2]))
          /\ UNCHANGED <<inc, err, dead, ninv, scripts, phase, boot, catching, scn>>
        ELSE IF e.ev.k = "exit" THEN
          LET (* the message leaves the channel of the hop it has just crossed *)
              cin == IF e.ev.pos >= 1 THEN Route[e.ev.r][e.ev.pos].ch ELSE 0
              ch0 == IF cin # 0 THEN [W0.chan EXCEPT ![cin].dlv = Append(@, e.ev.msg.id)] ELSE W0.chan
              res == Walk(ch0, W0.active, e.ev.msg, e.ev.r, e.ev.pos, e.t, <<>>) IN
          /\ Commit(Flush([W0 EXCEPT !.chan = res[1]], e.t, res[2]))
          /\ UNCHANGED <<inc, err, dead, ninv, scripts, phase, boot, catching, scn>>
        ELSE IF e.ev.k = "msg" THEN
          LET m == e.ev.m IN
          IF ~W0.active[m]
          THEN /\ Commit(W0) /\ UNCHANGED <<inc, err, dead, ninv, scripts, phase, boot, catching, scn>>
          ELSE \E cmds \in ChoicesFor(m, Menu[m]) :
                 LET R == Invoke(W0, S0Of(W0), m, e.t, [o |-> "msg", m |-> m, id |-> e.ev.msg.id, t |-> e.t, inc |-> inc[m], mods |-> Stack[m]], e.ev.msg, TRUE, cmds) IN
                 /\ (~R.ran => (scn > 0 \/ cmds = <<>>))   \* a consumed message runs no handler: canonical empty choice
                 /\ Commit(Finish(R.W, m, e.t, R.S))
                 /\ catching' = NewCatch(m, R.S)
                 /\ err' = (IF R.S.uncaught THEN err \cup {m} ELSE err) /\ dead' = DeadAfter(m, R.S, Finish(R.W, m, e.t, R.S))
                 /\ scripts' = IF R.ran THEN [scripts EXCEPT ![m] = Append(@, cmds)] ELSE scripts
                 /\ ninv' = IF R.ran THEN ninv + Counts(Menu[m]) ELSE ninv
                 /\ inc' = IncAfter(m, R.S)
                 /\ UNCHANGED <<phase, boot, scn>>
        ELSE (* restart *)
          LET m == e.ev.m
              Wa == [W0 EXCEPT !.active = [@ EXCEPT ![m] = TRUE]] IN
          \E cs \in (IF scn > 0 THEN {[i \in 1..Stages[m] |-> Recorded(m, Len(scripts[m]) + i)]} ELSE [1..Stages[m] -> ChoicesFor(m, StartMenu[m])]) :
            LET R == RestartAll(Wa, S0Of(Wa), m, e.t, 0, cs, <<>>) IN
            /\ Commit(Finish(R.W, m, e.t, R.S))
            /\ inc' = IncAfter(m, R.S)
            /\ catching' = NewCatch(m, R.S)
            /\ err' = (IF R.S.uncaught THEN err \cup {m} ELSE err)
            /\ dead' = IF dead[m] # "no" THEN [dead EXCEPT ![m] = "revived"] ELSE DeadAfter(m, R.S, Finish(R.W, m, e.t, R.S))
            /\ scripts' = [scripts EXCEPT ![m] = @ \o R.used]
            /\ ninv' = ninv + Len(R.used) * Counts(StartMenu[m])
            /\ UNCHANGED <<phase, boot, scn>>

(* tear-down: at_sim_end of every module in tree order (also of inactive ones), bracketed by its elements *)
RECURSIVE EndLog(_)
EndLog(i) == IF i > Len(Mods) THEN <<>>
             ELSE PEUp(Mods[i], 0, Stack[Mods[i]], NoMsg, FALSE)[1] \o <<[o |-> "end", m |-> Mods[i]]>>
                  \o PEDown(Mods[i], Stack[Mods[i]]) \o EndLog(i + 1)
EndStep == /\ phase = "run" /\ ~CanRun
           /\ phase' = "done" /\ log' = log \o EndLog(1)
           /\ UNCHANGED <<now, fes, seq, active, inc, err, dead, chan, nextMsg, ninv, catching, scripts, boot, scn>>

Next == BootStep \/ Step \/ EndStep
Spec == Init /\ [][Next]_nvars

-----------------------------------------------------------------------------
(* ---- C07: every message offered to a channel is accounted for ---- *)
InFlight(ch) == {e.ev.msg.id : e \in {f \in fes : f.ev.k = "exit" /\ f.ev.pos >= 1 /\ Route[f.ev.r][f.ev.pos].ch = ch}}
Queued(ch) == {chan[ch].q[i].msg.id : i \in 1..Len(chan[ch].q)}
(* an idle channel has an empty queue (nothing is left stuck) *)
NoStuck == \A ch \in Chans : (~chan[ch].busy) => chan[ch].q = <<>>
(* a busy channel always has its un-busy event pending at the announced time *)
BusyHasUnbusy == \A ch \in Chans : chan[ch].busy =>
                    \E e \in fes : e.ev.k = "unbusy" /\ e.ev.ch = ch /\ e.t = chan[ch].until
RECURSIVE SumBytes(_)
SumBytes(q) == IF q = <<>> THEN 0 ELSE BytesOf[q[1].msg.size] + SumBytes(Tail(q))
AccIsSum == \A ch \in Chans : chan[ch].acc = SumBytes(chan[ch].q)
QueueWithinLimit == \A ch \in Chans : LimitOf[ch] >= 0 => chan[ch].acc <= LimitOf[ch]
NoDuplicates == \A ch \in Chans : InFlight(ch) \cap Queued(ch) = {}
(* with zero jitter deliveries preserve offer order: what has left a channel is a prefix of what it accepted, in that order *)
IsPrefixOf(a, b) == Len(a) <= Len(b) /\ \A i \in 1..Len(a) : a[i] = b[i]
OfferOrder == \A ch \in Chans : IsPrefixOf(chan[ch].dlv, chan[ch].accs)
(* ---- C09: an inactive module runs nothing; ---- C02: time never decreases *)
(* ---- C13: a module that panicked stays deactivated ...                                              *)
PanickedInert == \A m \in ModSet : dead[m] # "no" => ~active[m]
(* ... which the code guarantees except when a shutdown / restart request of the module was pending *)
PanickedInertUnlessPending == \A m \in ModSet : dead[m] \in {"dead", "pending"} => ~active[m]
TimeMonotone == [][now' >= now]_nvars
NoPastEvents == \A e \in fes : e.t >= now
=============================================================================
