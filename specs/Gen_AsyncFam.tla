---------------------------- MODULE Gen_AsyncFam ----------------------------
EXTENDS MC_AsyncFam, Json
ObsOut == [prog |-> prog, obs |-> obs, unfinished |-> Unfinished, amb |-> amb]
Emit == (done /\ ~amb) => PrintT(<<"REPLAY", ToJson(ObsOut)>>)
=============================================================================
