------------------------- MODULE Ind_AllocSafety -------------------------
(* Apalache: the three invariants of AllocSafety are inductive for ARBITRARY integer addresses, sizes, alignments,  *)
(* page numbers and page sizes (TLC checks them for small ones); only the number of regions / pages in the        *)
(* pre-state is bounded (Gen).                                                                                  *)
EXTENDS AllocSafety, Apalache

ConstInit == PS \in Nat

IndInv == LiveDisjoint /\ LiveAligned /\ LiveInPage /\ \A r \in live : r.align > 0

IndInit == pages = Gen(4) /\ live = Gen(6) /\ IndInv

IndNext ==
  \/ \E addr \in Nat, size \in Nat, align \in Nat, p1 \in Nat, p2 \in Nat :
       /\ align > 0
       /\ \E extra \in SUBSET {p1, p2} : Alloc(addr, size, align, pages \cup extra)
  \/ \E r \in live : Dealloc(r.addr, r.size)
  \/ Fail
=============================================================================
