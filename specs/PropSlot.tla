------------------------------ MODULE PropSlot ------------------------------
(* C17, last sentence: a property keeps the type it was first read or written with; reading it as a  *)
(* different type is an error, never a reinterpretation.  State machine over one property slot        *)
(* (des-net-utils props: Entry::None / Entry::Yaml / Entry::Some(Box<dyn PropType>)).                 *)
EXTENDS Naturals, Sequences, FiniteSets, TLC
(* configuration value admits.                                                                    *)
CONSTANTS Types, MaxOps

VARIABLES slot,      \* [st |-> "missing"] (key never touched) | [st |-> "none"] (touched, empty) |
                     \* [st |-> "yaml", y |-> kind, v |-> value id] | [st |-> "typed", ty |-> T, val |-> v]
          nops, pret

Compatible(y, T) == \/ (y = "num" /\ T \in {"u32", "i64"})
                    \/ (y = "str" /\ T = "string")
                    \/ (y = "bool" /\ T = "bool")

TInit == /\ slot \in {[st |-> "missing"], [st |-> "yaml", y |-> "num", v |-> 1], [st |-> "yaml", y |-> "str", v |-> 1], [st |-> "yaml", y |-> "bool", v |-> 1]}
         /\ nops = 0 /\ pret = [op |-> "init", slot |-> slot]

(* ctx.prop::<T>(key): Err on a type mismatch (slot untouched), otherwise a handle; a configuration value *)
(* is converted on the first typed read and from then on the slot has that type.                          *)
ReadTyped(T) ==
  /\ nops < MaxOps /\ nops' = nops + 1
  /\ IF slot.st = "typed"
     THEN /\ UNCHANGED slot
          /\ pret' = [op |-> "read", ty |-> T, res |-> IF slot.ty = T THEN "ok" ELSE "err", val |-> IF slot.ty = T THEN slot.val ELSE 0]
     ELSE IF slot.st = "yaml"
     THEN IF Compatible(slot.y, T)
          THEN /\ slot' = [st |-> "typed", ty |-> T, val |-> slot.v]     \* 1 = the initially configured value, 4 = a later one
               /\ pret' = [op |-> "read", ty |-> T, res |-> "ok", val |-> slot.v]
          ELSE /\ UNCHANGED slot /\ pret' = [op |-> "read", ty |-> T, res |-> "err", val |-> 0]
     ELSE /\ slot' = [st |-> "none"]            \* the access creates the (empty) slot
          /\ pret' = [op |-> "read", ty |-> T, res |-> "ok", val |-> 0]   \* 0 = absent

(* prop::<T>(key)?.or(v) then set(w): write through a handle of type T *)
Write(T, w) ==
  /\ nops < MaxOps /\ nops' = nops + 1
  /\ IF (slot.st = "typed" /\ slot.ty # T) \/ (slot.st = "yaml" /\ ~Compatible(slot.y, T))
     THEN /\ UNCHANGED slot /\ pret' = [op |-> "write", ty |-> T, res |-> "err", val |-> 0]
     ELSE /\ slot' = [st |-> "typed", ty |-> T, val |-> w]
          /\ pret' = [op |-> "write", ty |-> T, res |-> "ok", val |-> w]

(* a configuration entry for this key arrives later (include_cfg after the module exists): it only *)
(* fills a slot that was never touched; an existing slot keeps its value and its type             *)
Reconfig(y) ==
  /\ nops < MaxOps /\ nops' = nops + 1
  /\ slot' = IF slot.st = "missing" THEN [st |-> "yaml", y |-> y, v |-> 4] ELSE slot
  /\ pret' = [op |-> "reconfig", ty |-> y, res |-> "ok", val |-> 0]

Clear == /\ nops < MaxOps /\ nops' = nops + 1
         /\ slot' = [st |-> "none"] /\ pret' = [op |-> "clear", ty |-> "", res |-> "ok", val |-> 0]

TNext == (\E T \in Types : ReadTyped(T)) \/ (\E T \in Types, w \in 2..3 : Write(T, w)) \/ Clear
         \/ (\E y \in {"num", "str"} : Reconfig(y))
TSpec == TInit /\ [][TNext]_<<slot, nops, pret>>

(* the type of a slot changes only through Clear; a failed access changes nothing *)
TypeSticky == [][(slot.st = "typed" /\ slot'.st = "typed") => slot'.ty = slot.ty]_<<slot, nops, pret>>
ErrPure    == [][pret'.res = "err" => slot' = slot]_<<slot, nops, pret>>
NoReinterpret == [][(pret'.op = "read" /\ pret'.res = "ok" /\ slot.st = "typed") => pret'.ty = slot.ty]_<<slot, nops, pret>>
=============================================================================
