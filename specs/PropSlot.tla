------------------------------ MODULE PropSlot ------------------------------
(* C17, last sentence: a property keeps the type it was first read or written with; reading it as a  *)
(* different type is an error, never a reinterpretation.  State machine over one property slot        *)
(* (des-net-utils props: Entry::None / Entry::Yaml / Entry::Some(Box<dyn PropType>)).                 *)
EXTENDS Naturals, Sequences, FiniteSets, TLC
(* configuration value admits.                                                                    *)
CONSTANTS Types, MaxOps

VARIABLES slot,      \* [st |-> "missing"] (key never touched) | [st |-> "none"] (touched, empty) |
                     \* [st |-> "yaml", y |-> kind, v |-> value id] | [st |-> "typed", ty |-> T, val |-> v]
          held,      \* "" or the type T of an upgraded handle (Prop<T, true>) the client still holds; it outlives Clear
          nops, pret

Compatible(y, T) == \/ (y = "num" /\ T \in {"u32", "i64"})
                    \/ (y = "str" /\ T = "string")
                    \/ (y = "bool" /\ T = "bool")

TInit == /\ slot \in {[st |-> "missing"], [st |-> "yaml", y |-> "num", v |-> 1], [st |-> "yaml", y |-> "str", v |-> 1], [st |-> "yaml", y |-> "bool", v |-> 1]}
         /\ nops = 0 /\ pret = [op |-> "init", slot |-> slot] /\ held = ""

(* ctx.prop::<T>(key): Err on a type mismatch (slot untouched), otherwise a handle; a configuration value *)
(* is converted on the first typed read and from then on the slot has that type.                          *)
ReadTyped(T) ==
  /\ nops < MaxOps /\ nops' = nops + 1 /\ UNCHANGED held
  /\ IF slot.st = "typed"
     THEN /\ UNCHANGED slot
          /\ pret' = [op |-> "read", ty |-> T, res |-> IF slot.ty = T THEN "ok" ELSE "err", val |-> IF slot.ty = T THEN slot.val ELSE 0]
     ELSE IF slot.st = "yaml"
     THEN IF Compatible(slot.y, T)
          THEN /\ slot' = [st |-> "typed", ty |-> T, val |-> slot.v]     \* 1 = the initially configured value, 4 = a later one
               /\ pret' = [op |-> "read", ty |-> T, res |-> "ok", val |-> slot.v]
          ELSE /\ UNCHANGED slot /\ pret' = [op |-> "read", ty |-> T, res |-> "err", val |-> 0]
     ELSE /\ slot' = [st |-> "none"]            \* the access creates the (empty) slot
          /\ pret' = [op |-> "read", ty |-> T, res |-> "ok", val |-> 0]   \* 0 = absent

(* prop::<T>(key)?.or(v) then set(w): write through a handle of type T *)
Write(T, w) ==
  /\ nops < MaxOps /\ nops' = nops + 1 /\ UNCHANGED held
  /\ IF (slot.st = "typed" /\ slot.ty # T) \/ (slot.st = "yaml" /\ ~Compatible(slot.y, T))
     THEN /\ UNCHANGED slot /\ pret' = [op |-> "write", ty |-> T, res |-> "err", val |-> 0]
     ELSE /\ slot' = [st |-> "typed", ty |-> T, val |-> w]
          /\ pret' = [op |-> "write", ty |-> T, res |-> "ok", val |-> w]

(* a configuration entry for this key arrives later (include_cfg after the module exists): it only *)
(* fills a slot that was never touched; an existing slot keeps its value and its type             *)
Reconfig(y) ==
  /\ nops < MaxOps /\ nops' = nops + 1 /\ UNCHANGED held
  /\ slot' = IF slot.st = "missing" THEN [st |-> "yaml", y |-> y, v |-> 4] ELSE slot
  /\ pret' = [op |-> "reconfig", ty |-> y, res |-> "ok", val |-> 0]

Clear == /\ nops < MaxOps /\ nops' = nops + 1 /\ UNCHANGED held
         /\ slot' = [st |-> "none"] /\ pret' = [op |-> "clear", ty |-> "", res |-> "ok", val |-> 0]

(* let h = prop::<T>(key)?.or(w): an upgraded handle that the client keeps; `or` only fills an empty slot *)
Mismatch(T) == (slot.st = "typed" /\ slot.ty # T) \/ (slot.st = "yaml" /\ ~Compatible(slot.y, T))
Hold(T, w) ==
  /\ nops < MaxOps /\ nops' = nops + 1 /\ held = ""
  /\ IF Mismatch(T)
     THEN /\ UNCHANGED <<slot, held>> /\ pret' = [op |-> "hold", ty |-> T, res |-> "err", val |-> 0]
     ELSE /\ slot' = IF slot.st = "typed" THEN slot ELSE IF slot.st = "yaml" THEN [st |-> "typed", ty |-> T, val |-> slot.v]
                     ELSE [st |-> "typed", ty |-> T, val |-> w]
          /\ held' = T
          /\ pret' = [op |-> "hold", ty |-> T, res |-> "ok", val |-> slot'.val]
(* h.set(w) / h.get() through the kept handle: an error (panic) once the slot holds another type, never a silent *)
(* overwrite or a reinterpretation; an emptied slot may be written (with the handle's type) but not read         *)
HeldSet(w) ==
  /\ nops < MaxOps /\ nops' = nops + 1 /\ held # "" /\ UNCHANGED held
  /\ IF slot.st = "typed" /\ slot.ty # held
     THEN /\ UNCHANGED slot /\ pret' = [op |-> "held_set", ty |-> held, res |-> "err", val |-> 0]
     ELSE /\ slot' = [st |-> "typed", ty |-> held, val |-> w] /\ pret' = [op |-> "held_set", ty |-> held, res |-> "ok", val |-> w]
HeldGet ==
  /\ nops < MaxOps /\ nops' = nops + 1 /\ held # "" /\ UNCHANGED <<held, slot>>
  /\ pret' = IF slot.st = "typed" /\ slot.ty = held THEN [op |-> "held_get", ty |-> held, res |-> "ok", val |-> slot.val]
             ELSE [op |-> "held_get", ty |-> held, res |-> "err", val |-> 0]

TNext == (\E T \in Types : ReadTyped(T)) \/ (\E T \in Types, w \in 2..3 : Write(T, w)) \/ Clear
         \/ (\E y \in {"num", "str"} : Reconfig(y))
         \/ (\E T \in Types : Hold(T, 2)) \/ HeldSet(3) \/ HeldGet
TSpec == TInit /\ [][TNext]_<<slot, nops, pret, held>>

(* the type of a slot changes only through Clear; a failed access changes nothing *)
TypeSticky == [][(slot.st = "typed" /\ slot'.st = "typed") => slot'.ty = slot.ty]_<<slot, nops, pret, held>>
ErrPure    == [][pret'.res = "err" => slot' = slot]_<<slot, nops, pret, held>>
NoReinterpret == [][(pret'.op = "read" /\ pret'.res = "ok" /\ slot.st = "typed") => pret'.ty = slot.ty]_<<slot, nops, pret, held>>
=============================================================================
