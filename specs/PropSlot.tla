------------------------------ MODULE PropSlot ------------------------------
(* C17, last sentence: a property keeps the type it was first read or written with; reading it as a  *)
(* different type is an error, never a reinterpretation.  State machine over one property slot        *)
(* (des-net-utils props: Entry::None / Entry::Yaml / Entry::Some(Box<dyn PropType>)).                 *)
EXTENDS Naturals, Sequences, FiniteSets, TLC
(* configuration value admits.                                                                    *)
CONSTANTS Types, MaxOps

VARIABLES slot,      \* [st |-> "none"] | [st |-> "yaml", y |-> kind] | [st |-> "typed", ty |-> T, val |-> v]
          nops, pret

Compatible(y, T) == \/ (y = "num" /\ T \in {"u32", "i64"})
                    \/ (y = "str" /\ T = "string")
                    \/ (y = "bool" /\ T = "bool")

TInit == /\ slot \in {[st |-> "none"], [st |-> "yaml", y |-> "num"], [st |-> "yaml", y |-> "str"], [st |-> "yaml", y |-> "bool"]}
         /\ nops = 0 /\ pret = [op |-> "init", slot |-> slot]

(* ctx.prop::<T>(key): Err on a type mismatch (slot untouched), otherwise a handle; a configuration value *)
(* is converted on the first typed read and from then on the slot has that type.                          *)
ReadTyped(T) ==
  /\ nops < MaxOps /\ nops' = nops + 1
  /\ IF slot.st = "typed"
     THEN /\ UNCHANGED slot
          /\ pret' = [op |-> "read", ty |-> T, res |-> IF slot.ty = T THEN "ok" ELSE "err", val |-> IF slot.ty = T THEN slot.val ELSE 0]
     ELSE IF slot.st = "yaml"
     THEN IF Compatible(slot.y, T)
          THEN /\ slot' = [st |-> "typed", ty |-> T, val |-> 1]     \* 1 = "the configured value"
               /\ pret' = [op |-> "read", ty |-> T, res |-> "ok", val |-> 1]
          ELSE /\ UNCHANGED slot /\ pret' = [op |-> "read", ty |-> T, res |-> "err", val |-> 0]
     ELSE /\ UNCHANGED slot /\ pret' = [op |-> "read", ty |-> T, res |-> "ok", val |-> 0]   \* 0 = absent

(* prop::<T>(key)?.or(v) then set(w): write through a handle of type T *)
Write(T, w) ==
  /\ nops < MaxOps /\ nops' = nops + 1
  /\ IF (slot.st = "typed" /\ slot.ty # T) \/ (slot.st = "yaml" /\ ~Compatible(slot.y, T))
     THEN /\ UNCHANGED slot /\ pret' = [op |-> "write", ty |-> T, res |-> "err", val |-> 0]
     ELSE /\ slot' = [st |-> "typed", ty |-> T, val |-> w]
          /\ pret' = [op |-> "write", ty |-> T, res |-> "ok", val |-> w]

Clear == /\ nops < MaxOps /\ nops' = nops + 1
         /\ slot' = [st |-> "none"] /\ pret' = [op |-> "clear", ty |-> "", res |-> "ok", val |-> 0]

TNext == (\E T \in Types : ReadTyped(T)) \/ (\E T \in Types, w \in 2..3 : Write(T, w)) \/ Clear
TSpec == TInit /\ [][TNext]_<<slot, nops, pret>>

(* the type of a slot changes only through Clear; a failed access changes nothing *)
TypeSticky == [][(slot.st = "typed" /\ slot'.st = "typed") => slot'.ty = slot.ty]_<<slot, nops, pret>>
ErrPure    == [][pret'.res = "err" => slot' = slot]_<<slot, nops, pret>>
NoReinterpret == [][(pret'.op = "read" /\ pret'.res = "ok" /\ slot.st = "typed") => pret'.ty = slot.ty]_<<slot, nops, pret>>
=============================================================================
