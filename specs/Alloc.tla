------------------------------- MODULE Alloc -------------------------------
(***************************************************************************)
(* Mechanism layer: des-cqueue/src/stable/alloc.rs transcribed.            *)
(* Units of 8 bytes; ListNode = 2 units.  Page k occupies [k*PS,(k+1)*PS). *)
(*   free  : the free list, head first (add_free_region pushes in front)   *)
(*   Find  : find_region (first fit, page growth by recursion)             *)
(*   Fits  : alloc_from_region (FixD11 = FALSE: pinned rule "remainder is  *)
(*           0 or can hold a ListNode"; TRUE: any remainder is accepted,   *)
(*           allocate() discards remainders smaller than the request)      *)
(* Checked: refinement of AllocSafety + free-list invariants + no runaway  *)
(* page growth for any request that fits a page.                           *)
(***************************************************************************)
EXTENDS Naturals, Sequences, FiniteSets, TLC
CONSTANTS PS, Sizes, Aligns, MaxOps, MaxPages, FixD11
VARIABLES free, npages, live, amem, ops, aret
vars == <<free, npages, live, amem, ops, aret>>
LN == 2
AlignUp(a, al) == ((a + al - 1) \div al) * al
(* size_align: align to at least a ListNode's alignment (1 unit), pad, at least a ListNode *)
SA(sz, al) == LET s1 == AlignUp(sz, al) IN <<IF s1 < LN THEN LN ELSE s1, al>>

Init == /\ free = <<[addr |-> 0, size |-> PS]>> /\ npages = 1 /\ live = {} /\ amem = 0 /\ ops = 0
        /\ aret = [op |-> "init"]

Fits(r, sz, al) == LET st == AlignUp(r.addr, al)  e == st + sz IN
                   /\ e <= r.addr + r.size
                   /\ (FixD11 \/ LET ex == r.addr + r.size - e IN ex = 0 \/ ex >= LN)
FirstFit(f, sz, al) == IF \E i \in 1..Len(f) : Fits(f[i], sz, al)
                       THEN CHOOSE i \in 1..Len(f) : Fits(f[i], sz, al) /\ \A j \in 1..i-1 : ~Fits(f[j], sz, al)
                       ELSE 0
Remove(f, i) == [k \in 1..Len(f)-1 |-> IF k < i THEN f[k] ELSE f[k+1]]
(* find_region: <<free', npages', index of the chosen region or 0 = would grow forever>> *)
RECURSIVE Find(_, _, _, _)
Find(f, pg, sz, al) == LET i == FirstFit(f, sz, al) IN
                       IF i # 0 THEN <<f, pg, i>>
                       ELSE IF pg >= MaxPages THEN <<f, pg, 0>>
                       ELSE Find(<<[addr |-> pg * PS, size |-> PS]>> \o f, pg + 1, sz, al)

Allocate(s0, a0) ==
  /\ ops < MaxOps /\ ops' = ops + 1
  /\ LET sa == SA(s0, a0)  sz == sa[1]  al == sa[2] IN
     IF sz > PS
     THEN /\ aret' = [op |-> "fail", rs |-> s0, ra |-> a0] /\ UNCHANGED <<free, npages, live, amem>>
     ELSE LET r == Find(free, npages, sz, al) IN
          IF r[3] = 0
          THEN /\ aret' = [op |-> "runaway", rs |-> s0, ra |-> a0] /\ UNCHANGED <<free, npages, live, amem>>
          ELSE LET f == r[1]  reg == f[r[3]]  st == AlignUp(reg.addr, al)  e == st + sz
                   ex == reg.addr + reg.size - e
                   f2 == Remove(f, r[3])
                   f3 == IF ex > 0 /\ ex >= sz THEN <<[addr |-> e, size |-> ex]>> \o f2 ELSE f2 IN
               /\ free' = f3 /\ npages' = r[2]
               /\ live' = live \cup {[addr |-> st, size |-> sz, align |-> al]}
               /\ amem' = amem + sz
               /\ aret' = [op |-> "alloc", addr |-> st, size |-> sz, align |-> al, rs |-> s0, ra |-> a0,
                           npages |-> r[2], amem |-> amem + sz]

Deallocate(x) ==
  /\ ops < MaxOps /\ ops' = ops + 1 /\ x \in live
  /\ live' = live \ {x} /\ amem' = amem - x.size
  /\ free' = <<[addr |-> x.addr, size |-> x.size]>> \o free
  /\ aret' = [op |-> "dealloc", addr |-> x.addr, size |-> x.size, amem |-> amem - x.size]
  /\ UNCHANGED npages

Next == (\E s \in Sizes, a \in Aligns : Allocate(s, a)) \/ (\E x \in live : Deallocate(x))
Spec == Init /\ [][Next]_vars

-----------------------------------------------------------------------------
AS == INSTANCE AllocSafety WITH pages <- 0..npages-1
(* every mechanism step is a contract step *)
StepOK == [][ \/ (aret'.op = "alloc" /\ AS!Alloc(aret'.addr, aret'.size, aret'.align, 0..npages'-1))
              \/ (aret'.op = "dealloc" /\ AS!Dealloc(aret'.addr, aret'.size))
              \/ (aret'.op \in {"fail", "runaway"} /\ AS!Fail) ]_<<npages, live, aret>>
FreeDisjointFromLive == \A i \in 1..Len(free) : \A a \in live : AS!Disj(free[i], a)
FreeDisjoint  == \A i, j \in 1..Len(free) : i = j \/ AS!Disj(free[i], free[j])
FreeInPage    == \A i \in 1..Len(free) : AS!InOnePage(free[i].addr, free[i].size, 0..npages-1)
FreeBigEnough == \A i \in 1..Len(free) : free[i].size >= LN
RECURSIVE SumSizes(_)
SumSizes(S) == IF S = {} THEN 0 ELSE LET x == CHOOSE y \in S : TRUE IN x.size + SumSizes(S \ {x})
MemCount  == amem = SumSizes(live)
(* a request that fits a page is always served (no endless page growth: D11) *)
NoRunaway == aret.op # "runaway"
=============================================================================
