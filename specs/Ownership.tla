----------------------------- MODULE Ownership -----------------------------
(***************************************************************************)
(* C20: dropping a simulation releases everything exactly once.            *)
(*                                                                         *)
(* Reference-counting model of the object graph of a des::net simulation,  *)
(* with the strong edges as read from the code (weak edges cannot keep     *)
(* anything alive and are left out):                                       *)
(*   R (Runtime / run result) -> G (Sim, Globals), events of the event set *)
(*       and of Profiler::remaining                                        *)
(*   G -> modules (ModuleTree)        parent module -> child module        *)
(*   module -> its gates, its executor X (tokio runtime) and driver D      *)
(*   gate -> peer gate, gate -> channel of that connection                 *)
(*   channel -> queued message entry; entry -> next gate AND -> the same   *)
(*       channel (Connection::channel)   <- reference cycle                *)
(*   event -> module / gate / channel / message it refers to               *)
(*   X -> task T -> captured state S;  D -> timer queue Q <-> slot SL      *)
(*       (cycle), SL -> waker of T                                         *)
(*   STATIC (MOD_CTX) -> the module that ran last, cleared when G drops    *)
(* Destructor side effects: dropping a module context dissolves the gate   *)
(* chains reachable from its gates (Gate::dissolve_paths) and - with the   *)
(* repair FixDissolve - empties the queues of the channels on them;        *)
(* dropping the executor drops every task's future (captured state) and    *)
(* removes its timer entries.                                              *)
(* An object is dropped when its last strong reference disappears.         *)
(* Invariant: when nothing more can be dropped, every object carrying user *)
(* state (modules, messages, task state) has been dropped exactly once.    *)
(***************************************************************************)
EXTENDS Naturals, FiniteSets, TLC

CONSTANTS FixDissolve      \* TRUE: Gate::dissolve_paths also empties channel queues (repair F-C20-1)

Modules == {"A", "B", "C"}                      \* C is a child of A
Gates == {"Aout", "Bin", "r1", "r2", "r3", "r4"}  \* Aout-Bin is a chain with channels, r1..r4 form a ring
Chans == {"ch1", "ch2", "chr"}
Msgs == {"q1", "q2", "mEv", "mExit", "mRem"}
Events == {"evMsg", "evExit", "evUnbusy", "evRem"}
Others == {"R", "G", "STATIC", "XA", "TA", "SA", "DA", "QA", "SLA"}
Objs == Modules \cup Gates \cup Chans \cup Msgs \cup Events \cup Others
UserState == Modules \cup Msgs \cup {"SA"}

VARIABLES alive,     \* objects not yet dropped
          edges,     \* set of <<from, to>> strong references
          roots,     \* objects held by the user / by statics
          drops,     \* [obj -> number of times its destructor ran]
          cfg        \* the stopping point that produced this graph

ovars == <<alive, edges, roots, drops, cfg>>

StaticEdges == {<<"G", "A">>, <<"G", "B">>, <<"G", "C">>, <<"A", "C">>,
                <<"A", "Aout">>, <<"A", "r1">>, <<"A", "r4">>, <<"B", "Bin">>, <<"B", "r2">>, <<"B", "r3">>,
                <<"Aout", "Bin">>, <<"Bin", "Aout">>, <<"Aout", "ch1">>, <<"Bin", "ch2">>,
                <<"r1", "r2">>, <<"r2", "r1">>, <<"r2", "r3">>, <<"r3", "r2">>, <<"r3", "r4">>, <<"r4", "r3">>,
                <<"r4", "r1">>, <<"r1", "r4">>, <<"r2", "chr">>,
                <<"A", "XA">>, <<"XA", "TA">>, <<"TA", "SA">>, <<"A", "DA">>, <<"DA", "QA">>, <<"QA", "SLA">>, <<"SLA", "QA">>,
                <<"R", "G">>}
(* optional parts, depending on where the simulation stopped *)
QueueEdges == {<<"ch1", "q1">>, <<"ch1", "q2">>, <<"q1", "Bin">>, <<"q1", "ch1">>, <<"q2", "Bin">>, <<"q2", "ch1">>}
EventEdges == {<<"R", "evMsg">>, <<"evMsg", "B">>, <<"evMsg", "mEv">>,
               <<"R", "evExit">>, <<"evExit", "Bin">>, <<"evExit", "ch1">>, <<"evExit", "mExit">>,
               <<"R", "evUnbusy">>, <<"evUnbusy", "ch1">>}
RemainingEdges == {<<"R", "evRem">>, <<"evRem", "A">>, <<"evRem", "mRem">>}
TimerEdges == {<<"SLA", "TA">>}          \* a pending timer: the slot holds the task's waker
StaticRef == {<<"STATIC", "B">>}

Configs == {"never_started", "limit_with_backlog", "completed", "completed_blocked_task", "limit_all"}
EdgesOf(c) == StaticEdges \cup
  (CASE c = "never_started" -> {}
     [] c = "limit_with_backlog" -> QueueEdges \cup EventEdges \cup StaticRef
     [] c = "completed" -> StaticRef
     [] c = "completed_blocked_task" -> TimerEdges \cup StaticRef
     [] OTHER -> QueueEdges \cup EventEdges \cup RemainingEdges \cup TimerEdges \cup StaticRef)
Present(E) == {e[1] : e \in E} \cup {e[2] : e \in E}

Init == /\ cfg \in Configs
        /\ edges = EdgesOf(cfg)
        /\ alive = Present(EdgesOf(cfg))
        /\ roots = {"R", "STATIC"}
        /\ drops = [o \in Objs |-> 0]

Referenced(o) == \E e \in edges : e[2] = o /\ e[1] \in alive
Droppable(o) == o \in alive /\ o \notin roots /\ ~Referenced(o)

(* gates reachable from a set of gates through connection edges *)
RECURSIVE Chain(_)
Chain(S) == LET S2 == S \cup {e[2] : e \in {x \in edges : x[1] \in S /\ x[2] \in Gates}} IN IF S2 = S THEN S ELSE Chain(S2)

(* destructor side effects *)
SideEffects(o, E) ==
  IF o \in Modules
  THEN LET gs == Chain({e[2] : e \in {x \in E : x[1] = o /\ x[2] \in Gates}})
           chs == {e[2] : e \in {x \in E : x[1] \in gs /\ x[2] \in Chans}}
           E1 == {e \in E : ~(e[1] \in gs)}                                   \* connections taken out of the gates
       IN IF FixDissolve THEN {e \in E1 : ~(e[1] \in chs /\ e[2] \in Msgs)} ELSE E1   \* ... and queues emptied
  ELSE IF o = "XA" THEN {e \in E : ~(e[1] = "TA" /\ e[2] = "SA") /\ ~(e[1] = "SLA" /\ e[2] = "TA")}   \* futures dropped, timer entries removed
  ELSE IF o = "G" THEN {e \in E : e[1] # "STATIC"}                              \* Sim::drop resets MOD_CTX
  ELSE E

DropObj(o) == /\ Droppable(o)
              /\ alive' = alive \ {o}
              /\ drops' = [drops EXCEPT ![o] = @ + 1]
              /\ edges' = {e \in SideEffects(o, edges) : e[1] # o}
              /\ UNCHANGED <<roots, cfg>>

(* the user drops what run() / finish() returned (or the never-started Runtime) *)
Release == /\ "R" \in roots /\ roots' = roots \ {"R"} /\ UNCHANGED <<alive, edges, drops, cfg>>

Next == Release \/ \E o \in Objs : DropObj(o)
Spec == Init /\ [][Next]_ovars

-----------------------------------------------------------------------------
Quiescent == "R" \notin roots /\ ~\E o \in Objs : Droppable(o)
(* every user-state object that existed is gone once nothing more can be dropped *)
AllUserStateDropped == Quiescent => \A o \in UserState \cap Present(EdgesOf(cfg)) : o \notin alive /\ drops[o] = 1
NeverTwice == \A o \in Objs : drops[o] <= 1
(* nothing is dropped while the user still holds the simulation *)
NothingEarly == "R" \in roots => \A o \in Objs : drops[o] = 0
(* what may remain: the empty slot <-> queue cycle of the timer driver, which carries no user state *)
ResidueHarmless == Quiescent => (alive \ {"STATIC"}) \subseteq {"QA", "SLA"}
=============================================================================
