--------------------------- MODULE Gen_Runtime ---------------------------
(* Direction G for Runtime.tla: behaviours = (configuration, program,      *)
(* step schedule) with every observable the contract demands.              *)
EXTENDS MC_Runtime, Json
VARIABLE hist
gvars == <<rvars, hist>>

GInit == Init /\ hist = <<ret>>
GNext == Next /\ hist' = Append(hist, ret')
GSpec == GInit /\ [][GNext]_gvars
Emit == (phase = "done") => PrintT(<<"REPLAY", ToJson(hist)>>)
=============================================================================
