#[path = "../../harness/src/common.rs"]
mod common;
#[path = "../../harness/src/emb.rs"]
mod emb;
#[path = "../../harness/src/asyncm.rs"]
mod asyncm;
#[path = "../../harness/src/net.rs"]
mod net;
#[path = "../../harness/src/rt.rs"]
mod rt;

fn main() {
    let args: Vec<String> = std::env::args().skip(1).collect();
    if args.len() < 2 {
        eprintln!("usage: vhh <suite> <mode> [args]");
        std::process::exit(3);
    }
    common::silence_panics();
    common::watchdog::start(common::arg_u64(&args, "--hang-secs", 20));
    match (args[0].as_str(), args[1].as_str()) {
        ("rt", "replay") => rt::replay(&args[2..]),
        ("rt", "record") => rt::record(&args[2..]),
        ("rt", "time") => rt::time_cases(&args[2..]),
        ("asyncm", "replay") => asyncm::replay(&args[2..]),
        ("net", "replay") => net::replay(&args[2..]),
        _ => {
            eprintln!("unknown suite/mode");
            std::process::exit(3);
        }
    }
}
