"""C02, C10, C11 (and the runtime-level half of C03): Runtime.tla, G binding via `vh rt replay`."""
import json
import os

import vlib
from vlib import Verdict, log, tlc, workdir

MC_PROPS = ("ClockMonotone ClockIsEventTs PastRejected FutureAccepted DispatchMin PausePure "
            "StepNExact UntilExact LimitExact LimitRespected")


def mc(v, wd, consts, note):
    cfg = f"""CONSTANTS {consts}
SPECIFICATION Spec
INVARIANTS NoPast CountOK
PROPERTIES {MC_PROPS}
CHECK_DEADLOCK FALSE
"""
    r = tlc("MC_Runtime", cfg, wd, coverage=True)
    v.add_tlc("Runtime contract: " + note, r, consts.replace("\n", " "))
    if r.violation:
        v.spec_violation("Runtime", r)
    if "Starts = {0}" not in consts:
        # the BinaryHeap backend's initial "current instant" (differs only for non-zero start times)
        r = tlc("MC_Runtime", cfg.replace("HeapInit = FALSE", "HeapInit = TRUE"), wd)
        v.add_tlc("Runtime contract (HeapInit): " + note, r, consts.replace("\n", " ").replace("HeapInit = FALSE", "HeapInit = TRUE"))
        if r.violation:
            v.spec_violation("Runtime (HeapInit)", r)


def gen_replay(v, wd, tier, prop, consts, max_tick, what, fields=None, tag="g"):
    """Generate all behaviours for `consts`, replay them; mismatches whose 'field' is in `fields`
    (None = all) are violations of `prop`; others are reported as belonging to a sibling property."""
    cfg = f"""CONSTANTS {consts}
SPECIFICATION GSpec
INVARIANT Emit
CHECK_DEADLOCK FALSE
"""
    beh = os.path.join(wd, f"beh_{tag}.txt")
    r = tlc("Gen_Runtime", cfg, wd, printed_to=beh)
    if not r.ok:
        raise vlib.ToolError("Gen_Runtime failed:\n" + r.tail)
    shards, total = vlib.shard_lines(beh, wd, vlib.NCPU, prefix=f"sh_{tag}_")
    log(f"[{prop}] Gen_Runtime[{what}]: {total} behaviours in {r.wall:.1f}s")
    outs = vlib.run_vh_parallel([["rt", "replay", s, "--tier", tier, "--max-tick", str(max_tick)] for s in shards])
    tot = vlib.collect(v, outs, "rt", "replaying Runtime behaviours")
    v.cov["traces_validated_against_impl"] += int(tot.get("replays", 0))
    v.cov["evaluations"] += int(tot.get("checks", 0))
    v.cov["distinct_nontrivial"] += int(tot.get("nontrivial", 0))
    v.cov.setdefault("gen_runs", []).append({"what": what, "behaviours": total, "constants": consts.replace("\n", " "),
                                             "classes": tot.get("extra", {})})
    if len(v.cov["samples"]) < 3:
        v.cov["samples"].extend(tot.get("samples", [])[:1])
    seen = set()
    for m in tot.get("mismatches", []):
        f = m.get("field")
        if f in seen:
            continue
        seen.add(f)
        v.add_violation(f"Runtime deviates from the contract: {f} (expected {m.get('expected')}, got {m.get('got')}) under {m.get('cfg')}",
                        m, {"suite": "rt", "field": f})
    if int(tot.get("mismatch_count", 0)):
        v.cov["replay_mismatches"] = v.cov.get("replay_mismatches", 0) + int(tot["mismatch_count"])
    # the BinaryHeap backend (des built without the `cqueue` feature) against the contract with HeapInit = TRUE; the queue
    # parameters of the grid are meaningless there, the embeddings are not
    vlib.build_harness_heap()
    behh = os.path.join(wd, f"beh_{tag}_heap.txt")
    rh = tlc("Gen_Runtime", cfg.replace("HeapInit = FALSE", "HeapInit = TRUE"), wd, printed_to=behh)
    if not rh.ok:
        raise vlib.ToolError("Gen_Runtime (HeapInit) failed:\n" + rh.tail)
    shards_h, total_h = vlib.shard_lines(behh, wd, vlib.NCPU, prefix=f"sh_{tag}_heap_")
    outs = vlib.run_vh_parallel([["rt", "replay", s, "--tier", "quick", "--max-tick", str(max_tick)] for s in shards_h], binary=vlib.VHH)
    toth = vlib.collect(v, outs, "rt", "replaying Runtime behaviours on the BinaryHeap backend")
    v.cov["traces_validated_against_impl"] += int(toth.get("replays", 0))
    v.cov["evaluations"] += int(toth.get("checks", 0))
    v.cov["gen_runs"][-1]["heap_backend_replays"] = int(toth.get("replays", 0))
    seen = set()
    for m in toth.get("mismatches", []):
        f = m.get("field")
        if f in seen:
            continue
        seen.add(f)
        m["backend"] = "heap"
        v.add_violation(f"Runtime on the BinaryHeap backend deviates from the contract: {f} (expected {m.get('expected')}, got {m.get('got')}) "
                        f"under {m.get('cfg')}", m, {"suite": "rt", "field": f, "backend": "heap"})
    return total


def record_validate(v, wd, tier, prop):
    """Direction V: long random programs / step schedules / limit trees recorded from the real Runtime, validated by
    Trace_Runtime (TLC)."""
    from concurrent.futures import ThreadPoolExecutor
    import c_fes
    runs = 25 if tier == "quick" else 250
    files = [os.path.join(wd, f"rtrace{i}.ndjson") for i in range(vlib.NCPU)]
    # the second half of the recordings comes from the BinaryHeap backend
    vlib.build_harness_heap()
    half = len(files) // 2
    cmds = [["rt", "record", "--seed", str(vlib.seed() * 1000 + i), "--runs", str(runs), "--out", f] for i, f in enumerate(files)]
    outs = vlib.run_vh_parallel(cmds[:half]) + vlib.run_vh_parallel(cmds[half:], binary=vlib.VHH)
    tot = vlib.collect(v, outs, "rt", "running random programs")
    for m in tot.get("mismatches", [])[:3]:
        v.add_violation(f"random program: {m.get('field')}", m, {"suite": "rt", "field": m.get("field")})
    consts = "MaxT = 100000 MaxId = 100000 MaxSteps = 100000 MaxExt = 100000 Menu = {} Seed = TRUE Starts = {0} Limits = {} HeapInit = FALSE"

    def one(i):
        if "crash" in outs[i] or "hang" in outs[i] or not os.path.exists(files[i]):
            return 0, [], None
        return c_fes.validate_trace_file("Trace_Runtime", consts, files[i], wd, f"r{i}", reset_marker='"op":"cfg"')
    with ThreadPoolExecutor(max_workers=8) as ex:
        results = list(ex.map(one, range(len(files))))
    acc = 0
    for idx, (a, rej, r) in enumerate(results):
        acc += a
        if r is not None:
            v.add_tlc("Trace_Runtime validation", r)
        for x in rej:
            i = x["first_unmatched_line_in_run"]
            x["backend"] = "heap" if idx >= half else "cqueue"
            v.add_violation(f"recorded run of the real Runtime ({x['backend']} backend) is not a behaviour of Runtime.tla: first unmatched "
                            f"line {i}: {json.dumps(x['run'][i - 1])[:300]}", x, {"suite": "rt", "kind": "trace", "backend": x["backend"]})
    v.cov["traces_validated_against_impl"] += acc
    v.cov["recorded_runs_accepted"] = acc
    log(f"[{prop}] Trace_Runtime: {acc} recorded random programs accepted")


def apalache_time(v, wd):
    """Apalache (symbolic): the laws of Time.tla, plus the triangle inequality and translation invariance the additive
    embeddings rest on, for arbitrary naturals (TLC checks 0..N). A counterexample is a violation of the specification,
    anything else (time-out, tool trouble) is only noted."""
    import shutil
    import subprocess
    import time
    ad = os.path.join(wd, "apalache_time")
    shutil.rmtree(ad, ignore_errors=True)
    os.makedirs(ad)
    shutil.copy(os.path.join(vlib.SPECS, "Ind_Time.tla"), ad)
    t0 = time.time()
    try:
        p = subprocess.run(["timeout", "300", "apalache-mc", "check", f"--out-dir={ad}/out", "--init=IInit", "--next=INext", "--inv=ILaws",
                            "--length=0", "Ind_Time.tla"], cwd=ad, capture_output=True, text=True)
        out = p.stdout + p.stderr
    except OSError as e:
        out = str(e)
    if "EXITCODE: OK" in out and "NoError" in out:
        res = "holds"
    elif "EXITCODE: ERROR (12)" in out or "outcome is: Error" in out:
        res = "counterexample"
    else:
        res = "inconclusive"
    log(f"[apalache] Time laws over unbounded naturals: {res} ({time.time() - t0:.0f}s)")
    v.cov["apalache_time_laws"] = {"module": "Ind_Time", "invariant": "ILaws (11 laws of SimTime arithmetic)", "result": res,
                                   "bound": "none: a, b, d arbitrary naturals"}
    if res == "counterexample":
        v.add_violation("Apalache: a law of SimTime arithmetic (Ind_Time.ILaws) fails for some naturals (counterexample under work/<id>/apalache_time)",
                        {"apalache": res}, {"suite": "spec", "field": "apalache_time"})


def time_cases(v, wd, tier):
    """SimTime arithmetic (Time.tla): the case table evaluated by TLC, compared with des::time::SimTime under additive embeddings."""
    n = 4 if tier == "quick" else 7
    out = os.path.join(wd, "time_cases.txt")
    g = tlc("Gen_Time", f"CONSTANTS N = {n}\nSPECIFICATION Spec\nINVARIANTS Laws Emit\nCHECK_DEADLOCK FALSE\n", wd, printed_to=out, workers=2)
    v.add_tlc("Time: SimTime arithmetic laws and case table", g, f"N = {n}")
    if g.violation:
        v.spec_violation("Time", g)
        return
    apalache_time(v, wd)
    outs = vlib.run_vh_parallel([["rt", "time", out]])
    tot = vlib.collect(v, outs, "rt", "evaluating SimTime arithmetic")
    v.cov["traces_validated_against_impl"] += int(tot.get("replays", 0))
    v.cov["evaluations"] += int(tot.get("checks", 0))
    v.cov["simtime_cases"] = int(tot.get("replays", 0))
    seen = set()
    for m in tot.get("mismatches", []):
        f = m.get("field")
        if f in seen:
            continue
        seen.add(f)
        v.add_violation(f"{f}: expected {m.get('expected')} got {m.get('got')} for {json.dumps(m.get('case'))} with a tick of {m.get('unit_ns')} ns",
                        m, {"suite": "rt", "field": f, "kind": "time"})


def c02(tier):
    v = Verdict("C02", tier)
    vlib.build_harness()
    wd = workdir("C02")
    mc(v, wd, "MaxT = 3 MaxId = 3 MaxSteps = 2 MaxExt = 2\n Menu <- MenuPast Seed = TRUE Starts = {0, 2} Limits <- LimitsSome HeapInit = FALSE", "clock / accept-reject rules")
    if tier == "quick":
        gen_replay(v, wd, tier, "C02", "MaxT = 3 MaxId = 3 MaxSteps = 1 MaxExt = 2\n Menu <- MenuPast Seed = TRUE Starts = {0, 2} Limits <- LimitsNone HeapInit = FALSE", 8,
                   "programs with past/present/future adds, start in {0,2}")
        gen_replay(v, wd, tier, "C02", "MaxT = 2 MaxId = 3 MaxSteps = 2 MaxExt = 1\n Menu <- MenuSmall Seed = TRUE Starts = {0} Limits <- LimitsNone HeapInit = FALSE", 8,
                   "external add while paused", tag="g2")
    else:
        gen_replay(v, wd, tier, "C02", "MaxT = 4 MaxId = 4 MaxSteps = 1 MaxExt = 2\n Menu <- MenuPast Seed = TRUE Starts = {0, 3} Limits <- LimitsNone HeapInit = FALSE", 10,
                   "programs with past/present/future adds, start in {0,3}")
        gen_replay(v, wd, tier, "C02", "MaxT = 3 MaxId = 3 MaxSteps = 2 MaxExt = 2\n Menu <- MenuPast Seed = TRUE Starts = {0, 2} Limits <- LimitsNone HeapInit = FALSE", 8,
                   "external adds while paused", tag="g2")
    record_validate(v, wd, tier, "C02")
    time_cases(v, wd, tier)
    v.cov["rule"] = ("every behaviour of Runtime.tla in the bound (program = handler follow-up lists chosen by TLC, external adds at "
                     "past/present/future times, start times) replayed on des::runtime::Runtime under a grid of cqueue options and "
                     "time embeddings; non-trivial = has a tie, several steps, or stops with events remaining")
    v.cov["exhaustive"] = True
    v.assumptions = ["events are generic Application events; module-level scheduling is covered by the Net suites"]
    return v.finish()


def c10(tier):
    v = Verdict("C10", tier)
    vlib.build_harness()
    wd = workdir("C10")
    mc(v, wd, "MaxT = 3 MaxId = 3 MaxSteps = 3 MaxExt = 2\n Menu <- MenuSmall Seed = TRUE Starts = {0} Limits <- LimitsSome HeapInit = FALSE", "stepping")
    # mechanism: dispatch_event with peek (the repaired code) keeps order and queue time across pauses
    consts = "Fixed = TRUE MaxEv = 5 MaxT = 2 MaxCalls = 3" if tier == "quick" else "Fixed = TRUE MaxEv = 6 MaxT = 3 MaxCalls = 4"
    r = tlc("RuntimeMech", f"CONSTANTS {consts}\nSPECIFICATION Spec\nINVARIANT PausedAcceptsLegalAdds\n"
                           "PROPERTIES HandledInContractOrder PausePure\nCHECK_DEADLOCK FALSE\n", wd)
    v.add_tlc("RuntimeMech (peek-then-fetch) keeps the contract order and accepts legal adds while paused", r, consts)
    if r.violation:
        v.spec_violation("RuntimeMech", r)
    if tier == "quick":
        gen_replay(v, wd, tier, "C10", "MaxT = 2 MaxId = 3 MaxSteps = 3 MaxExt = 1\n Menu <- MenuSmall Seed = TRUE Starts = {0} Limits <- LimitsNone HeapInit = FALSE", 8,
                   "all step schedules (<=3 calls) of tie-heavy programs, one external add anywhere")
    else:
        gen_replay(v, wd, tier, "C10", "MaxT = 2 MaxId = 3 MaxSteps = 3 MaxExt = 2\n Menu <- MenuSmall Seed = TRUE Starts = {0} Limits <- LimitsNone HeapInit = FALSE", 8,
                   "all step schedules (<=3 calls), two external adds anywhere")
        gen_replay(v, wd, tier, "C10", "MaxT = 2 MaxId = 4 MaxSteps = 3 MaxExt = 1\n Menu <- MenuTies Seed = TRUE Starts = {0} Limits <- LimitsNone HeapInit = FALSE", 8,
                   "tie-heavy programs", tag="g2")
    record_validate(v, wd, tier, "C10")
    v.cov["rule"] = ("every way of cutting the run of every program in the bound into dispatch_n_events / dispatch_events_until / "
                     "dispatch_all calls, with external adds between calls; compared with the contract and, for schedules that end in "
                     "dispatch_all+finish, with an uninterrupted run() of the same program")
    v.cov["exhaustive"] = True
    return v.finish()


def c11(tier):
    v = Verdict("C11", tier)
    vlib.build_harness()
    wd = workdir("C11")
    mc(v, wd, "MaxT = 3 MaxId = 3 MaxSteps = 1 MaxExt = 2\n Menu <- MenuSmall Seed = TRUE Starts = {0, 2} Limits <- LimitsAll HeapInit = FALSE", "limits")
    if tier == "quick":
        gen_replay(v, wd, tier, "C11", "MaxT = 2 MaxId = 3 MaxSteps = 1 MaxExt = 1\n Menu <- MenuSmall Seed = TRUE Starts = {0} Limits <- LimitsAll HeapInit = FALSE", 8,
                   "all programs x 20 limit trees")
    else:
        gen_replay(v, wd, tier, "C11", "MaxT = 3 MaxId = 4 MaxSteps = 1 MaxExt = 2\n Menu <- MenuSmall Seed = TRUE Starts = {0, 2} Limits <- LimitsAll HeapInit = FALSE", 10,
                   "all programs x 20 limit trees x start times")
    record_validate(v, wd, tier, "C11")
    v.cov["rule"] = ("every program in the bound under each of 20 limit trees (None, EventCount, SimTime, nested And/Or; also built by "
                     "Builder::max_itr/max_time): handled prefix, end time, event_count and the (id,time) multiset of remaining events")
    v.cov["exhaustive"] = True
    return v.finish()


def _replay(prop, path):
    vlib.build_harness()
    wd = workdir(prop + "_replay")
    with open(path) as fh:
        viol = json.load(fh)
    beh = viol.get("detail", {}).get("behaviour")
    if "case" in viol.get("detail", {}):
        p = os.path.join(wd, "case.txt")
        with open(p, "w") as fh:
            fh.write(json.dumps([viol["detail"]["case"]]) + "\n")
        out = vlib.run_vh_parallel([["rt", "time", p]])[0]
        log(json.dumps(out)[:3000])
        return 1 if out.get("crash") or out.get("mismatch_count") else 0
    if beh is None:
        log("replay file carries no behaviour (spec-level violation): re-run the check instead")
        return 2
    p = os.path.join(wd, "beh.txt")
    with open(p, "w") as fh:
        fh.write(json.dumps(beh) + "\n")
    heap = viol.get("detail", {}).get("backend") == "heap"
    if heap:
        vlib.build_harness_heap()
    out = vlib.run_vh_parallel([["rt", "replay", p, "--tier", "thorough", "--max-tick", "12"]], binary=vlib.VHH if heap else None)[0]
    log(json.dumps(out)[:3000])
    return 1 if out.get("crash") or out.get("mismatch_count") else 0


def c02_replay(path):
    return _replay("C02", path)


def c10_replay(path):
    return _replay("C10", path)


def c11_replay(path):
    return _replay("C11", path)
