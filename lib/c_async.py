"""C05 (timers) and C06 (run-to-quiescence inside one instant): AsyncMod.tla, TimerDriver.tla, `vh asyncm replay`."""
import json
import os

import vlib
from vlib import Verdict, log, tlc, workdir


def mc_timer_driver(v, wd, tier):
    consts = "MaxT = 4 Timers = {a, b, c} Fixed = TRUE MaxOps = 10" if tier == "quick" else "MaxT = 5 Timers = {a, b, c} Fixed = TRUE MaxOps = 12"
    r = tlc("TimerDriver", f"CONSTANTS {consts}\nSPECIFICATION Spec\nINVARIANTS NoLostTimer NotLate WakeFuture\nCHECK_DEADLOCK FALSE\n", wd)
    v.add_tlc("TimerDriver mechanism: NoLostTimer / NotLate / WakeFuture", r, consts)
    if r.violation:
        v.spec_violation("TimerDriver", r)
    # liveness layer: under fairness of the runtime's own steps every registered timer is eventually woken or dropped,
    # and a wake removes it at exactly its deadline
    lc = "MaxT = 4 Timers = {a, b, c} Fixed = TRUE MaxOps = 8" if tier == "quick" else "MaxT = 5 Timers = {a, b, c} Fixed = TRUE MaxOps = 10"
    r = tlc("TimerDriverLive", f"CONSTANTS {lc}\nSPECIFICATION SpecL\nINVARIANTS NoLostTimer NotLate WakeFuture NeverOverdue\n"
            "PROPERTIES EventuallyWoken FiresAtDeadline\nCHECK_DEADLOCK FALSE\n", wd)
    v.add_tlc("TimerDriverLive: EventuallyWoken (liveness, WF of wake-up dispatch and event end) / FiresAtDeadline / NeverOverdue", r, lc)
    if r.violation:
        v.spec_violation("TimerDriverLive", r)


def family(v, wd, prop, name, tasks, progs, max_t, spawn="both", mc=True, what="", module="Gen_AsyncMod", tol=0, tick_ns=1_000_000_000,
           pe_forward=False, heap=False, join_modes=False):
    consts = f"Tasks <- TasksN NT = {tasks} Progs <- {progs} MaxT = {max_t} Tol = {tol}"
    beh = os.path.join(wd, f"beh_{name}.txt")
    props = "PROPERTIES NoAdvanceWhileRunnable TimeMonotone\n" if mc else ""
    inv = "ObsTimesOrdered Emit" if mc else "Emit"
    g = tlc(module, f"CONSTANTS {consts}\nSPECIFICATION Spec\nINVARIANTS {inv}\n{props}CHECK_DEADLOCK FALSE\n", wd, printed_to=beh)
    if g.violation:
        v.spec_violation(f"AsyncMod[{name}]", g)
        return
    v.add_tlc(f"AsyncMod contract [{name}]", g, consts)
    shards, total = vlib.shard_lines(beh, wd, vlib.NCPU, prefix=f"sh_{name}_")
    log(f"[{prop}] Gen_AsyncMod[{name}]: {total} program assignments in {g.wall:.1f}s")
    extra = ["--tick-ns", str(tick_ns)] + (["--pe-forward", "1"] if pe_forward else []) + (["--join-modes", "1"] if join_modes else [])
    cmds = [["asyncm", "replay", s, "--max-t", str(max_t), "--spawn", spawn] + extra for s in shards if os.path.getsize(s) > 0]
    outs = vlib.run_vh_parallel(cmds)
    if heap:
        # the same programs with the BinaryHeap event set (des built without the `cqueue` feature)
        vlib.build_harness_heap()
        outs += vlib.run_vh_parallel(cmds, binary=vlib.VHH)
    tot = vlib.collect(v, outs, "asyncm", f"running async programs [{name}]")
    v.cov["traces_validated_against_impl"] += int(tot.get("replays", 0))
    v.cov["evaluations"] += int(tot.get("checks", 0))
    v.cov["distinct_nontrivial"] += int(tot.get("nontrivial", 0))
    v.cov.setdefault("gen_runs", []).append({"family": name, "programs": total, "what": what, "constants": consts,
                                             "classes": tot.get("extra", {})})
    if len(v.cov["samples"]) < 2:
        v.cov["samples"].extend(tot.get("samples", [])[:1])
    seen = set()
    for m in tot.get("mismatches", []):
        key = (m.get("field"), m.get("spawn_local"))
        if key in seen:
            continue
        seen.add(key)
        local = bool(m.get("spawn_local"))
        # scenario predicate for the recorded spawn_local finding: more than 61 polls of spawn_local tasks become
        # runnable within one instant (LocalSet's fixed per-tick budget)
        many = int(m.get("tasks", 0)) > 50
        # scenario predicate for F-C06-2: the task concerned completes more than 128 awaits within one instant, i.e. in one
        # poll (tokio's cooperative budget of 128 operations per poll forces a yield that des does not wait for)
        def longest_run(obs):
            best = cur = 0
            last = None
            for e in obs:
                key = (e.get("t"), e.get("inc"))
                cur = cur + 1 if key == last else 1
                last = key
                best = max(best, cur)
            return best
        exp_obs = (m.get("behaviour") or {}).get("obs") or []
        ti = int(m.get("task", 0)) - 1
        budget = 0 <= ti < len(exp_obs) and longest_run(exp_obs[ti]) > 128
        progs = (m.get("behaviour") or {}).get("prog") or []
        kinds = {st.get("k") for pr in progs for st in pr}
        v.add_violation(f"[{name}{', spawn_local' if local else ''}] {m.get('field')}: task {m.get('task')} expected {json.dumps(m.get('expected'))} "
                        f"got {json.dumps(m.get('got'))}", {k: x for k, x in m.items() if k != "got_obs"},
                        {"suite": "asyncm", "spawn_local": local, "more_than_61_local_polls_in_one_instant": local and many,
                         "more_than_128_awaits_completed_in_one_poll": bool(budget),
                         "task_calls_yield_now": "yield" in kinds, "sleep_first_polled_with_foreign_waker": "handpoll" in kinds})
    if int(tot.get("mismatch_count", 0)):
        v.cov["replay_mismatches"] = v.cov.get("replay_mismatches", 0) + int(tot["mismatch_count"])


def c05(tier):
    v = Verdict("C05", tier)
    vlib.build_harness()
    wd = workdir("C05")
    mc_timer_driver(v, wd, tier)
    family(v, wd, "C05", "timers1", 2, "ProgsT1", 14, what="one timer step per task + trailing sleep (both event-set backends)", heap=True)
    family(v, wd, "C05", "timers2", 2, "ProgsT2", 16, what="two timer steps per task (13 kinds: sleep, timeout, select, reset, poll-and-drop) + trailing sleep")
    family(v, wd, "C05", "interval", 1, "ProgsIvl", 24, what="interval with Burst / Delay / Skip and sleeps that miss ticks")
    family(v, wd, "C05", "interval_at", 1, "ProgsIvlAt", 24, what="interval_at with a start in the future, Interval::reset, accessors")
    family(v, wd, "C05", "interval_ms", 1, "ProgsIvlMs", 120, tol=5, tick_ns=1_000_000,
           what="10 ms interval on a millisecond grid: ticks picked up <= 5 ms late (not missed) and later (missed)")
    family(v, wd, "C05", "chan", 2, "ProgsChan", 14, what="timeouts around receives, module-to-task messages (both event-set backends)", heap=True)
    family(v, wd, "C05", "life", 2, "ProgsLife", 16, what="module restarted from a task while another task has timers pending")
    family(v, wd, "C05", "handpoll", 2, "ProgsHandPoll", 8, mc=False,
           what="a sleep first polled with a waker that is not the awaiting task's (recorded finding F-C05-2)")
    if tier == "thorough":
        family(v, wd, "C05", "timers3_single", 1, "ProgsTimers1", 20, what="three timer steps in one task")
    v.cov["rule"] = ("every assignment of programs from the menus of MC_AsyncMod.tla to 1-2 tasks of one module, spawned with tokio::spawn and "
                     "with spawn_local; per task, every await must be observed at exactly the simulated time and with the result the "
                     "contract computes (never early, late or not at all); joined tasks that cannot finish are reported. Non-trivial = "
                     "program drops or resets a timer before it fires, uses intervals, channels or a restart")
    v.cov["exhaustive"] = True
    v.assumptions = ["ties between a message arrival and a timeout deadline at the same instant are kept out of the scenarios (the property is "
                     "silent on them)", "tick = 1 s"]
    return v.finish()


def c06(tier):
    v = Verdict("C06", tier)
    vlib.build_harness()
    wd = workdir("C06")
    # mechanism: with an unlimited budget (event_interval(u32::MAX)) an event always ends quiescent
    for wakes in ("WakesFan", "WakesChain", "WakesTree"):
        consts = f"NTasks = {5 if tier == 'quick' else 7} Budget = 0 Wakes <- {wakes}"
        r = tlc("MC_Executor", f"CONSTANTS {consts}\nSPECIFICATION Spec\nINVARIANT QuiescentAtEventEnd\nCHECK_DEADLOCK FALSE\n", wd)
        v.add_tlc(f"Executor model, unlimited budget, {wakes}", r, consts)
        if r.violation:
            v.spec_violation("Executor", r)
    # mechanism behind F-C06-2 (cooperative budget + deferred wake-ups): the pinned design has a TLC counterexample, the
    # "run until idle" sketch of a repair satisfies Quiescent
    cc = "NTasks = 2 B = 2 MaxWork = 5" if tier == "quick" else "NTasks = 3 B = 3 MaxWork = 7"
    r = tlc("Coop", f"CONSTANTS {cc} RunUntilIdle = TRUE\nSPECIFICATION Spec\nINVARIANT Quiescent\nCONSTRAINT Bounded\nCHECK_DEADLOCK FALSE\n", wd)
    v.add_tlc("Coop (budgeted polls, deferred wakers), main future yields until idle: Quiescent", r, cc + " RunUntilIdle = TRUE")
    if r.violation:
        v.spec_violation("Coop", r)
    r = tlc("Coop", f"CONSTANTS {cc} RunUntilIdle = FALSE\nSPECIFICATION Spec\nINVARIANT Quiescent\nCONSTRAINT Bounded\nCHECK_DEADLOCK FALSE\n", wd)
    v.cov["coop_budget_counterexample_of_pinned_design"] = bool(r.violation)
    sizes = [2, 10, 60, 61, 62, 100] if tier == "quick" else [2, 10, 60, 61, 62, 63, 100, 500, 2000]
    for n in sizes:
        family(v, wd, "C06", f"chain{n}", n, "ProgsChain", 6, mc=(n <= 10), what=f"wake chain of {n} tasks inside one instant", module="Gen_AsyncFam")
    for n in ([3, 62, 130] if tier == "quick" else [3, 62, 130, 700]):
        family(v, wd, "C06", f"fan{n}", n, "ProgsFan", 6, mc=(n <= 10), what=f"one task wakes {n - 1} others in one poll", module="Gen_AsyncFam")
        family(v, wd, "C06", f"same_deadline{n}", n, "ProgsSameDeadline", 6, mc=False, what=f"{n} timers expiring at the same instant", module="Gen_AsyncFam")
    for n in ([62, 130] if tier == "quick" else [62, 130, 700]):
        family(v, wd, "C06", f"fan_restart{n}", n, "ProgsFanRestart", 8, mc=False, module="Gen_AsyncFam",
               what=f"fan-out of {n - 1} wake-ups in the second incarnation of a restarted module")
    family(v, wd, "C06", "chan_pe", 2, "ProgsChan", 14, mc=False, pe_forward=True,
           what="module-to-task messages forwarded by a processing element that consumes them (the handler never runs)")
    family(v, wd, "C06", "drain", 3, "ProgsDrain", 6, mc=False, what="40 sends in one poll, 40 receives in one poll", module="Gen_AsyncFam")
    for k in (128, 129, 300):
        family(v, wd, "C06", f"drain{k}", 3, f"ProgsDrain{k}", 6, mc=False, module="Gen_AsyncFam",
               what=f"{k} receives in one poll (tokio's cooperative budget is 128 operations per poll)")
    family(v, wd, "C06", "chan", 2, "ProgsChan", 14, what="small exhaustive menus with channels")
    family(v, wd, "C06", "yield", 2, "ProgsYield", 8, mc=False, what="tasks that call tokio::task::yield_now (recorded finding F-C06-3)")
    v.cov["rule"] = ("families in which many polls become runnable inside one simulated instant: wake chains (task i wakes i+1), fan-out, many "
                     "timers with one deadline, one poll doing 40 channel operations; N up to 100 (thorough 2000); spawned with tokio::spawn "
                     "and spawn_local; every task must observe exactly the instant at which its awaited condition became true")
    v.cov["exhaustive"] = False
    return v.finish()


def _replay(prop, path):
    vlib.build_harness()
    wd = workdir(prop + "_replay")
    with open(path) as fh:
        d = json.load(fh).get("detail", {})
    p = os.path.join(wd, "beh.txt")
    with open(p, "w") as fh:
        fh.write(json.dumps(d.get("behaviour")) + "\n")
    out = vlib.run_vh_parallel([["asyncm", "replay", p, "--max-t", str(d.get("max_t", 16)), "--tick-ns", str(d.get("tick_ns", 1_000_000_000)),
                                 "--pe-forward", "1" if d.get("pe_forward") else "0",
                                 "--spawn", "local" if d.get("spawn_local") else "spawn"]])[0]
    for m in out.get("mismatches", []):
        m.pop("behaviour", None)
        m.pop("got_obs", None)
    log(json.dumps(out)[:3000])
    return 1 if out.get("crash") or out.get("hang") or out.get("mismatch_count") else 0


def c05_replay(path):
    return _replay("C05", path)


def c06_replay(path):
    return _replay("C06", path)
