#!/usr/bin/env python3
"""Regenerates /verif/MANIFEST.json from the table below (run after adding a check)."""
import json
import os
import subprocess

ROOT = os.path.dirname(os.path.dirname(os.path.abspath(__file__)))

# id -> (technique, level text, level note, design ref)
CHECKS = {
    "C01": ("TLA+ contract FES + mechanism CQueue (TLC refinement check); TLC-generated behaviours replayed on CQueue; recorded histories validated by TLC (Trace_FES)",
            "TLC checks the contract invariants and that the transcribed calendar-queue algorithm refines the contract for every (N,W) in the bound; every contract behaviour in the bound is replayed on the real CQueue under a grid of bucket configurations, time embeddings and payload types; long random histories are validated line by line by TLC.",
            "Exhaustive only inside the TLC bound and the embedding grid; beyond it seeded random. Trusts TLC, rustc and the harness.",
            "4/C01"),
}

NOT_YET = "no check registered yet in this round (machinery under construction; see DESIGN.md section 8)"


def main():
    props = [json.loads(l)["id"] for l in open(os.path.join(ROOT, "properties.jsonl"))]
    hooks = []
    hp = os.path.join(ROOT, "hooks_commits.txt")
    if os.path.exists(hp):
        hooks = [l.split()[0] for l in open(hp) if l.strip()]
    man = {
        "version": 1,
        "setup_cmd": "cd /verif/harness && CARGO_NET_OFFLINE=true cargo build --release --offline",
        "hooks": {
            "guard": "--cfg petrichorit_des_verif",
            "enable": "the harness crate /verif/harness sets rustflags --cfg petrichorit_des_verif (and --cfg tokio_unstable) in its .cargo/config.toml and depends on /repo's crates by path, so every check rebuilds /repo's working tree with hooks on",
            "baseline_off_cmd": "cd /repo && cargo test --workspace --no-fail-fast --offline",
            "source_commits": hooks,
            "add_only": True,
        },
        "engines": [
            {"name": "tlc", "path": "/verif/specs", "serves_properties": sorted(CHECKS), "kind_free_text": "explicit TLA+ specifications model-checked with TLC 1.8; Gen_* configs enumerate behaviours, Trace_* modules validate recorded ndjson traces"},
            {"name": "vh", "path": "/verif/harness", "serves_properties": sorted(CHECKS), "kind_free_text": "Rust conformance harness: replays TLC-generated behaviours into the real crates and records traces from seeded drivers"},
        ],
        "checks": [],
        "not_applicable": [],
        "notes": "Every check is `./check <ID> --tier quick|thorough`; see DESIGN.md. known_findings.json lists recorded/fixed defects.",
    }
    for pid in props:
        if pid in CHECKS:
            tech, text, note, ref = CHECKS[pid]
            man["checks"].append({
                "property_id": pid,
                "quick_cmd": f"./check {pid} --tier quick",
                "thorough_cmd": f"./check {pid} --tier thorough",
                "evidence_file": f"/verif/evidence/{pid}.json",
                "replay_cmd_template": f"./check {pid} --replay {{path}}",
                "engine": "tlc+vh",
                "level_claimed": {"category": "model_checking", "text": text, "design_ref": f"DESIGN.md section {ref}"},
                "level_note": note,
                "technique": tech,
            })
        else:
            man["not_applicable"].append({"property_id": pid, "reason": NOT_YET})
    with open(os.path.join(ROOT, "MANIFEST.json"), "w") as fh:
        json.dump(man, fh, indent=1)
    print("MANIFEST.json written:", len(man["checks"]), "checks")


if __name__ == "__main__":
    main()
