"""C18: NDL parsing and elaboration are total; the built simulation matches the description (Ndl.tla, NdlGrammar.tla)."""
import json
import os

import vlib
from vlib import Verdict, log, tlc, workdir


def run(v, wd, module, consts, mode, tag, what):
    beh = os.path.join(wd, f"beh_{tag}.txt")
    g = tlc(module, f"CONSTANTS {consts}\nSPECIFICATION Spec\nINVARIANT Emit\nCHECK_DEADLOCK FALSE\n", wd, printed_to=beh)
    if not g.ok:
        raise vlib.ToolError(f"{module} failed:\n" + g.tail)
    v.add_tlc(f"{module} [{tag}]", g, consts)
    shards, total = vlib.shard_lines(beh, wd, vlib.NCPU, prefix=f"sh_{tag}_")
    log(f"[C18] {module}[{tag}]: {total} {what} in {g.wall:.1f}s")
    outs = vlib.run_vh_parallel([["ndl", mode, s] for s in shards if os.path.getsize(s) > 0])
    tot = vlib.collect(v, outs, "ndl", f"elaborating descriptions [{tag}]")
    v.cov["traces_validated_against_impl"] += int(tot.get("replays", 0))
    v.cov["evaluations"] += int(tot.get("checks", 0))
    v.cov["distinct_nontrivial"] += int(tot.get("nontrivial", 0))
    v.cov.setdefault("gen_runs", []).append({"what": what, "count": total, "constants": consts, "classes": tot.get("extra", {})})
    if len(v.cov["samples"]) < 2:
        v.cov["samples"].extend(tot.get("samples", [])[:1])
    seen = set()
    for m in tot.get("mismatches", []):
        if m.get("field") in seen:
            continue
        seen.add(m.get("field"))
        v.add_violation(f"{m.get('field')}: {json.dumps({k: x for k, x in m.items() if k not in ('behaviour', 'field', 'yaml')})[:500]}",
                        m, {"suite": "ndl", "field": m.get("field")})


def c18(tier):
    v = Verdict("C18", tier)
    vlib.build_harness()
    wd = workdir("C18")
    toks = '{"A", "x", "(", ")", " <- ", ", ", "[", "]", "3", "/"}'
    kinds = '{"modkey", "subtyp", "gate", "subname", "peer"}'
    run(v, wd, "NdlGrammar", f"Tokens = {toks} MaxLen = {3 if tier == 'quick' else 4} Kinds = {kinds}", "grammar", "grammar",
        "strings in string-typed positions")
    run(v, wd, "Gen_Ndl", f"MaxChanges = {1 if tier == 'quick' else 2}", "replay", "mut1" if tier == "quick" else "mut2",
        "descriptions (base + single-point mutations)" if tier == "quick" else "descriptions (base + up to two mutations)")
    if tier == "quick":
        # a sample of double mutations is cheap enough for the quick tier as well
        run(v, wd, "Gen_Ndl", "MaxChanges = 2", "replay", "mut2", "descriptions (base + up to two mutations)")
    v.cov["rule"] = ("(a) every string of <= 3 (4) tokens over {A x ( ) <- , [ ] 3 /} in each of the five string-typed positions of a document: "
                     "accepted / refused as NdlGrammar.tla says, never a panic, and elaboration of accepted ones returns; (b) a base "
                     "description (inheritance, clusters, nested submodules, a generic module with a conforming argument, cluster-to-"
                     "cluster and indexed connections, links) and every description differing from it in <= 2 of 15 variation points "
                     "(dangling names, off-by-one indices, zero-sized clusters, cycles, wrong / generic / non-conforming type arguments, "
                     "unknown links / entry, self-connections): transform() must return the error class(es) Elab assigns or succeed, and for "
                     "valid realisable descriptions the simulation built through a registry must contain exactly the module paths with "
                     "their registered software, the gate clusters and the connections with their link delay parameters that Elab denotes")
    v.cov["exhaustive"] = True
    v.assumptions = ["descriptions are drawn from one template with 15 variation points, not from the full NDL grammar",
                     "when a description has several independent faults any of their error classes is accepted (the order in which "
                     "modules are elaborated is unspecified)"]
    return v.finish()


def c18_replay(path):
    vlib.build_harness()
    wd = workdir("C18_replay")
    with open(path) as fh:
        d = json.load(fh).get("detail", {})
    beh = d.get("behaviour")
    p = os.path.join(wd, "beh.txt")
    with open(p, "w") as fh:
        fh.write(json.dumps(beh) + "\n")
    out = vlib.run_vh_parallel([["ndl", "grammar" if "tokens" in (beh or {}) else "replay", p]])[0]
    for m in out.get("mismatches", []):
        m.pop("behaviour", None)
    log(json.dumps(out)[:3000])
    return 1 if out.get("crash") or out.get("hang") or out.get("mismatch_count") else 0
