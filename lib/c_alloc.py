"""C15: allocator safety (AllocSafety / Alloc specs, hook H1b) + exactly-once payload drop (FES)."""
import json
import os
from concurrent.futures import ThreadPoolExecutor

import vlib
import c_fes
from vlib import Verdict, log, tlc, workdir, seed


def mc_alloc(v, wd, tier):
    runs = [("PS = 16 Sizes = {1, 3, 5, 6, 14, 15, 16} Aligns = {1, 2} MaxOps = 5 MaxPages = 8", "page 16 units")]
    if tier == "thorough":
        runs.append(("PS = 16 Sizes = {1, 3, 5, 6, 14, 15, 16} Aligns = {1, 2} MaxOps = 6 MaxPages = 8", "page 16 units, 6 ops"))
        runs.append(("PS = 8 Sizes = {1, 2, 3, 5, 6, 7, 8} Aligns = {1, 2, 4} MaxOps = 5 MaxPages = 8", "page 8 units, align 4"))
    for consts, note in runs:
        cfg = f"""CONSTANTS {consts} FixD11 = TRUE
SPECIFICATION Spec
INVARIANTS FreeDisjointFromLive FreeDisjoint FreeInPage FreeBigEnough MemCount NoRunaway
PROPERTIES StepOK
CHECK_DEADLOCK FALSE
"""
        r = tlc("Alloc", cfg, wd)
        v.add_tlc("Alloc refines AllocSafety: " + note, r, consts)
        if r.violation:
            v.spec_violation("Alloc", r)


def apalache_inductive(v, wd):
    """Apalache (symbolic): LiveDisjoint / LiveAligned / LiveInPage of AllocSafety are inductive for arbitrary integer
    addresses, sizes, alignments, page numbers and page sizes (TLC and the traces check small ones). An additional
    argument on the contract: a counterexample is a violation of the specification, a time-out only noted."""
    import shutil
    import subprocess
    import time
    ad = os.path.join(wd, "apalache")
    shutil.rmtree(ad, ignore_errors=True)
    os.makedirs(ad)
    for f in ("AllocSafety.tla", "Ind_AllocSafety.tla"):
        shutil.copy(os.path.join(vlib.SPECS, f), ad)
    steps = [("base", ["--cinit=ConstInit", "--init=AInit", "--next=IndNext", "--inv=IndInv", "--length=0"]),
             ("step", ["--cinit=ConstInit", "--init=IndInit", "--next=IndNext", "--inv=IndInv", "--length=1"])]
    res = {}
    for name, args in steps:
        t0 = time.time()
        try:
            p = subprocess.run(["timeout", "1500", "apalache-mc", "check", f"--out-dir={ad}/out_{name}"] + args + ["Ind_AllocSafety.tla"],
                               cwd=ad, capture_output=True, text=True)
            out = p.stdout + p.stderr
        except OSError as e:
            out = str(e)
        if "EXITCODE: OK" in out and "NoError" in out:
            res[name] = "holds"
        elif "EXITCODE: ERROR (12)" in out or "outcome is: Error" in out:
            res[name] = "counterexample"
        else:
            res[name] = "inconclusive"
        log(f"[apalache] AllocSafety inductive invariant, {name}: {res[name]} ({time.time() - t0:.0f}s)")
    v.cov["apalache_inductive_invariant"] = {"module": "Ind_AllocSafety", "invariant": "LiveDisjoint /\\ LiveAligned /\\ LiveInPage", **res,
                                             "bound": "<= 6 live regions and <= 4 pages in the pre-state; all integers unbounded"}
    if "counterexample" in res.values():
        v.add_violation("Apalache: the safety invariants of AllocSafety are not inductive (counterexample under work/C15/apalache)",
                        {"apalache": res}, {"suite": "spec", "field": "apalache"})


def gen_replay_alloc(v, wd, tier):
    # 6 operations would be ~40 GB of sequences: the thorough tier widens the size / alignment menu instead
    runs = [(16, "Sizes = {1, 3, 5, 6, 14, 15, 16} Aligns = {1, 2}")]
    if tier == "thorough":
        # page sizes must be powers of two (Layout::from_size_align(page, page)); 8 units = 64 bytes, 32 units = 256 bytes
        runs.append((8, "Sizes = {1, 2, 3, 5, 6, 7, 8} Aligns = {1, 2, 4}"))
        runs.append((32, "Sizes = {3, 8, 13, 16, 29, 31, 32} Aligns = {1, 4}"))
    for k, (ps, menu) in enumerate(runs):
        gen_replay_alloc_one(v, wd, ps, menu, 5, k)


def gen_replay_alloc_one(v, wd, ps, menu, ops, k):
    consts = f"PS = {ps} {menu} MaxOps = {ops} MaxPages = 8 FixD11 = TRUE"
    cfg = f"""CONSTANTS {consts}
SPECIFICATION GSpec
INVARIANT Emit
CHECK_DEADLOCK FALSE
"""
    beh = os.path.join(wd, f"beh_alloc{k}.txt")
    r = tlc("Gen_Alloc", cfg, wd, printed_to=beh)
    if not r.ok:
        raise vlib.ToolError("Gen_Alloc failed:\n" + r.tail)
    shards, total = vlib.shard_lines(beh, wd, vlib.NCPU, prefix=f"sh_alloc{k}_")
    os.remove(beh)
    log(f"[C15] Gen_Alloc: {total} operation sequences ({ops} ops, page {ps} units, {menu}) in {r.wall:.1f}s")
    outs = vlib.run_vh_parallel([["alloc", "replay", s, "--ps", str(ps)] for s in shards])
    for s in shards:
        os.remove(s)
    tot = vlib.collect(v, outs, "alloc", "replaying allocator operation sequences")
    v.cov["traces_validated_against_impl"] += int(tot.get("replays", 0))
    v.cov["evaluations"] += int(tot.get("checks", 0))
    v.cov["distinct_nontrivial"] += int(tot.get("nontrivial", 0))
    v.cov["alloc_sequences"] = v.cov.get("alloc_sequences", 0) + total
    drift = int(tot.get("extra", {}).get("placement_drift", 0))
    v.cov["mechanism_drift"] = v.cov.get("mechanism_drift", 0) + drift
    if drift:
        log(f"DRIFT mechanism=Alloc {drift} sequences placed differently from the transcribed first-fit algorithm "
            f"(contract-level safety still checked): e.g. {json.dumps(tot['extra'].get('drift_example'))[:300]}")
    if len(v.cov["samples"]) < 2:
        v.cov["samples"].extend(tot.get("samples", [])[:1])
    report(v, tot, "alloc")


def report(v, tot, suite):
    seen = set()
    for m in tot.get("mismatches", []):
        f = m.get("field")
        if f in seen:
            continue
        seen.add(f)
        v.add_violation(f"allocator / queue memory: {f}", m, {"suite": suite, "field": f})


def sizes(v, wd, tier):
    pages = [256, 4096] if tier == "quick" else [256, 1024, 4096, 16384, 65536]
    outs = vlib.run_vh_parallel([["alloc", "sizes", "--page", str(p), "--hang-secs", "10"] for p in pages])
    for o, p in zip(outs, pages):
        if "crash" in o:
            last = [ln for ln in o.get("stderr", "").splitlines() if ln.startswith("REQ")]
            o["last_request"] = last[-1] if last else None
    tot = vlib.collect(v, outs, "alloc", "serving single requests with sizes around the page size")
    v.cov["traces_validated_against_impl"] += int(tot.get("replays", 0))
    v.cov["evaluations"] += int(tot.get("checks", 0))
    v.cov["distinct_nontrivial"] += int(tot.get("nontrivial", 0))
    v.cov["boundary_requests"] = int(tot.get("replays", 0))
    report(v, tot, "alloc")


def maxtime(v, wd, tier):
    """Events at Duration::MAX (the timestamp of the bucket lists' own tail sentinels): queued, cancellable, dropped once."""
    outs = vlib.run_vh_parallel([["alloc", "maxtime"]])
    tot = vlib.collect(v, outs, "alloc", "queueing events at Duration::MAX")
    v.cov["traces_validated_against_impl"] += int(tot.get("replays", 0))
    v.cov["evaluations"] += int(tot.get("checks", 0))
    report(v, tot, "alloc")


def record_validate(v, wd, tier):
    pages = [256, 1024, 4096, 65536]
    runs, ops = (12, 250) if tier == "quick" else (60, 500)
    jobs = []
    for i, p in enumerate(pages * (vlib.NCPU // len(pages))):
        f = os.path.join(wd, f"atrace_{i}_{p}.ndjson")
        jobs.append((p, f, ["alloc", "record", "--seed", str(seed() * 100 + i), "--runs", str(runs), "--ops", str(ops),
                            "--page", str(p), "--out", f]))
    outs = vlib.run_vh_parallel([j[2] for j in jobs])
    tot = vlib.collect(v, outs, "alloc", "driving CQueue with the allocator observer installed")
    report(v, tot, "alloc")
    v.cov["alloc_events_observed"] = int(tot.get("extra", {}).get("alloc_events", 0))

    def one(k):
        p, f, _ = jobs[k]
        if "crash" in outs[k] or "hang" in outs[k] or not os.path.exists(f):
            return 0, [], None
        return c_fes.validate_trace_file("Trace_AllocSafety", f"PS = {p // 8}", f, wd, f"a{k}", invariant="Safe")
    with ThreadPoolExecutor(max_workers=8) as ex:
        results = list(ex.map(one, range(len(jobs))))
    acc_total = 0
    for acc, rej, r in results:
        acc_total += acc
        if r is not None:
            v.add_tlc("Trace_AllocSafety validation", r)
        for x in rej:
            v.add_violation("observed allocator event stream is not a behaviour of AllocSafety (first unmatched line "
                            f"{x['first_unmatched_line_in_run']})", x, {"suite": "alloc", "kind": "trace"})
    v.cov["traces_validated_against_impl"] += acc_total
    v.cov["recorded_runs_accepted"] = acc_total
    log(f"[C15] Trace_AllocSafety: {acc_total} recorded runs accepted ({v.cov['alloc_events_observed']} allocator events)")


def c15(tier):
    v = Verdict("C15", tier)
    vlib.build_harness()
    wd = workdir("C15")
    mc_alloc(v, wd, tier)
    if tier == "thorough":
        apalache_inductive(v, wd)
    maxtime(v, wd, tier)
    c_fes.mc_fes(v, wd, "quick")
    gen_replay_alloc(v, wd, tier)
    sizes(v, wd, tier)
    record_validate(v, wd, tier)
    # payload half: every FES behaviour (ending with the queue being dropped) under all payload types
    c_fes.gen_and_replay(v, wd, tier, "C15")
    v.cov["rule"] = ("allocator: all operation sequences of Alloc.tla in the bound replayed on the real allocator (shadow-map safety + "
                     "placement), single requests around the page size, and allocator event streams of random CQueue histories "
                     "(page sizes 256 B..64 KiB, payload size 1 B..2 KiB, align 1..32) validated by TLC against AllocSafety; "
                     "payloads: every FES behaviour + queue drop under 8 payload types with destructor counters and byte patterns. "
                     "non-trivial = memory is handed out again after a release / behaviour has ties, adds at the current time or cancels")
    v.cov["exhaustive"] = True
    v.assumptions = ["undefined behaviour that leaves no trace in allocator events, payload bytes or destructor counts is invisible",
                     "hook H1b (allocator observer) reports faithfully what the allocator does"]
    return v.finish()


def c15_replay(path):
    with open(path) as fh:
        d = json.load(fh).get("detail", {})
    if isinstance(d, dict) and "ps_units" in d:
        vlib.build_harness()
        wd = workdir("C15_replay")
        p = os.path.join(wd, "beh.txt")
        with open(p, "w") as fh:
            fh.write(json.dumps(d["behaviour"]) + "\n")
        out = vlib.run_vh_parallel([["alloc", "replay", p, "--ps", str(d["ps_units"])]])[0]
        log(json.dumps(out)[:2000])
        return 1 if out.get("crash") or out.get("hang") or out.get("mismatch_count") else 0
    return c_fes._replay("C15", path)
