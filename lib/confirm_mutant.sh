#!/bin/bash
# usage: confirm_mutant.sh <mutant dir with patch.diff demo.rs meta.json> <dest id (e.g. C01-m1)>
# Confirms in a scratch worktree of /repo HEAD: (1) patch applies + compiles, (2) full suite green with patch,
# (3) demo fails with patch, (4) demo passes without. On success copies the mutant to /verif/seeded/<dest>/.
set -u
src="$1"; dest="$2"
wt=/tmp/wt/confirm_$dest
rm -rf "$wt"; git -C /repo worktree prune
git -C /repo worktree add -q --detach "$wt" HEAD || exit 2
cd "$wt" || exit 2
crate=$(python3 -c "
import json,re
c=json.load(open('$src/meta.json')).get('demo_crate','des')
m=re.findall(r'des-cqueue|des-net-utils|des-macros-core|des-macros|des', c)
print(m[-1] if c.strip().startswith('/') and m else (m[0] if m else 'des'))")
mkdir -p "$crate/tests"
res() { echo "RESULT $dest: $*"; }
if ! git apply --3way "$src/patch.diff" 2>/dev/null && ! patch -p1 --no-backup-if-mismatch < "$src/patch.diff" >/dev/null 2>&1; then res "patch does not apply"; cd /; git -C /repo worktree remove --force "$wt"; exit 1; fi
git reset -q
git diff > /tmp/wt/rebased_$dest.diff
suite=$(cargo test --workspace --no-fail-fast --offline 2>&1 | grep -E "^test result" | awk '{p+=$4; f+=$6} END {print p" "f}')
cp "$src/demo.rs" "$crate/tests/zz_demo_mutant.rs"
pkg=$(basename "$crate")
cargo test -p "$pkg" --test zz_demo_mutant --offline >/tmp/wt/demo_with_$dest.log 2>&1; with=$?
git checkout -q -- . 
cargo test -p "$pkg" --test zz_demo_mutant --offline >/tmp/wt/demo_without_$dest.log 2>&1; without=$?
rm -f "$crate/tests/zz_demo_mutant.rs"
res "suite(passed failed)=$suite demo_with_patch_rc=$with demo_without_rc=$without"
if [ "${suite#* }" = "0" ] && [ "$with" != "0" ] && [ "$without" = "0" ]; then
  mkdir -p /verif/seeded/$dest
  cp /tmp/wt/rebased_$dest.diff /verif/seeded/$dest/patch.diff
  cp "$src/demo.rs" /verif/seeded/$dest/demo.rs
  python3 - "$src/meta.json" "/verif/seeded/$dest/meta.json" "$suite" "$pkg" <<'PY'
import json,sys
m=json.load(open(sys.argv[1]))
m["confirmed"]={"worktree":"scratch worktree of /repo HEAD (with fix: commits)","suite_passed_failed":sys.argv[3],
  "demo":"copied to %s/tests/zz_demo_mutant.rs: fails with patch, passes without"%sys.argv[4],
  "cmd":"cargo test --workspace --no-fail-fast --offline; cargo test -p %s --test zz_demo_mutant --offline"%sys.argv[4]}
json.dump(m,open(sys.argv[2],"w"),indent=1)
PY
  res "CONFIRMED -> /verif/seeded/$dest"
else
  res "NOT CONFIRMED"
fi
cd /; git -C /repo worktree remove --force "$wt"
