"""C04: seeded simulations are reproducible (same process twice, separate processes)."""
import os
import subprocess
from concurrent.futures import ThreadPoolExecutor

import vlib
import c_net
from vlib import Verdict, log, tlc, workdir


def histories(args):
    p = subprocess.run([vlib.VH, "repro", "run"] + args, stdout=subprocess.PIPE, stderr=subprocess.DEVNULL, text=True, timeout=300)
    if p.returncode != 0:
        return None
    out, cur = [], None
    for ln in p.stdout.splitlines():
        if ln.startswith("=== history"):
            cur = []
            out.append(cur)
        elif cur is not None:
            cur.append(ln)
    return out


def one(job):
    k, s = job
    base = ["--scenario", str(k), "--seed", str(s)]
    a = histories(base + ["--repeat", "2"])
    b = histories(base + ["--repeat", "1"])
    c = histories(base + ["--repeat", "1", "--warmup", "2"])
    return k, s, a, b, c


def c04(tier):
    v = Verdict("C04", tier)
    vlib.build_harness()
    wd = workdir("C04")
    # design level: with the scenario fixed nothing in the modelled scheduling is left open
    for name, kw in [("det_queue", dict(pol="PolQueue", tx="TxLin")), ("det_drop_pe", dict(pol="PolDrop", tx="TxLin", stack="Stack012", stages="Stages212"))]:
        scn = c_net.Scn(name, topo="T2", menu="MenuDet", start="StartDet", max_inv=40, max_t=10, **kw)
        r = tlc("MC_Net", f"CONSTANTS {scn.constants()}\nSPECIFICATION Spec\nINVARIANTS {c_net.INVS}\nCHECK_DEADLOCK FALSE\n", wd)
        v.add_tlc(f"Net is deterministic for fixed scripts [{name}]", r, "singleton menus")
        if r.violation:
            v.spec_violation("Net", r)
        elif not (r.distinct == r.generated and r.depth == r.distinct):
            v.violations.append({"what": f"Net.tla is not deterministic for fixed scripts [{name}]: {r.distinct} distinct states, depth {r.depth}",
                                 "kind": "spec", "detail": r.tail[-1500:], "sig": {"suite": "spec"}})
        # and the real simulation reproduces that single behaviour
        c_net.run_scn(v, wd, "C04", scn, mc=False)
    # the same statement over random mixed scenarios: every scenario has exactly one complete behaviour in the interpreter
    # (checked inside run_random) and both event-set backends reproduce it
    c_net.run_random(v, wd, "C04", c_net.Scn("mixQ", topo="T2", pol="PolQueue", tx="TxLin", lim="Lim128", stack="Stack012", stages="Stages212",
                                             catch="CatchB", max_inv=1000, max_t=14), 200 if tier == "quick" else 2000, "mixQ")
    nk, ns = (12, 3) if tier == "quick" else (60, 6)
    jobs = [(k, vlib.seed() * 100 + s) for k in range(1, nk + 1) for s in range(1, ns + 1)]
    with ThreadPoolExecutor(max_workers=vlib.NCPU) as ex:
        results = list(ex.map(one, jobs))
    compared = 0
    nontrivial = 0
    seen_by_scenario = {}
    for k, s, a, b, c in results:
        if a is None or b is None or c is None or len(a) != 2 or len(b) != 1 or len(c) != 1:
            v.add_violation(f"repro scenario {k} seed {s}: the harness process crashed", {"scenario": k, "seed": s}, {"suite": "repro", "kind": "crash"})
            continue
        logs = [a[0], a[1], b[0], c[0]]
        names = ["process 1 run 1", "process 1 run 2 (back to back)", "fresh process", "fresh process after two other simulations"]
        compared += 4
        for i in range(1, 4):
            if logs[i] != logs[0]:
                j = next((x for x in range(min(len(logs[0]), len(logs[i]))) if logs[0][x] != logs[i][x]), min(len(logs[0]), len(logs[i])))
                v.add_violation(f"scenario {k} seed {s}: history of '{names[i]}' differs from '{names[0]}' at line {j}: "
                                f"{logs[0][j] if j < len(logs[0]) else None!r} vs {logs[i][j] if j < len(logs[i]) else None!r}",
                                {"scenario": k, "seed": s, "which": names[i], "line": j, "first": logs[0][max(0, j - 3):j + 2], "other": logs[i][max(0, j - 3):j + 2],
                                 "cmd": f"vh repro run --scenario {k} --seed {s} --repeat 2"}, {"suite": "repro", "which": names[i]})
                break
        txt = "\n".join(logs[0])
        if "branch=A" in txt and "branch=B" in txt and "msg " in txt:
            seen_by_scenario.setdefault(k, set()).add(txt)
        if len(v.cov["samples"]) < 1:
            v.cov["samples"].append({"scenario": k, "seed": s, "history_head": logs[0][:12]})
    # a scenario is non-trivial if its history has both select outcomes and different seeds give different histories
    nontrivial = sum(len(x) for x in seen_by_scenario.values() if len(x) >= 2)
    v.cov["traces_validated_against_impl"] += compared
    v.cov["evaluations"] += compared
    v.cov["distinct_nontrivial"] += nontrivial
    v.cov["scenario_seed_pairs"] = len(jobs)
    log(f"[C04] {len(jobs)} (scenario, seed) pairs x 4 executions compared; {nontrivial} distinct seed-dependent histories")
    v.cov["rule"] = ("generated three-module models (channels with random jitter, bitrate and drop policy; modules that draw random::<u32>() on "
                     "every message and act on the value; tasks whose select! has branches ready at the same instant and that draw "
                     "sample(Uniform)) x seeds: the printed history (deliveries with time / module / id / length / drawn value, select branch "
                     "taken, timer completions, final time, event count) of run 1, of a second run back to back in the same process, of a "
                     "fresh process, and of a fresh process that ran two other simulations first must be identical line by line. "
                     "Non-trivial = history contains both select outcomes and differs between seeds")
    v.cov["exhaustive"] = False
    v.assumptions = ["the cross-process clause is decided differentially by the harness (a TLA+ model has no notion of address-space layout); "
                     "the specification contributes that Net.tla leaves nothing open for fixed scripts"]
    return v.finish()


def c04_replay(path):
    import json
    with open(path) as fh:
        d = json.load(fh).get("detail", {})
    if "cfg" in d:
        return c_net._replay("C04", path)
    vlib.build_harness()
    k, s = d.get("scenario", 1), d.get("seed", 1)
    _, _, a, b, c = one((k, s))
    ok = a and b and c and a[0] == a[1] == b[0] == c[0]
    log("identical" if ok else "histories differ")
    return 0 if ok else 1
