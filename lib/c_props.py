"""C17: configuration matching (Props.tla) and slot typing (PropSlot.tla)."""
import json
import os

import vlib
from vlib import Verdict, log, tlc, workdir


def shadow_sig(cfg):
    """Scenario predicate of known finding F-C17-1: some entry's whole key equals the part of another entry's key
    that precedes one of its '<any>' segments (and that part ends in a literal segment), e.g. 'a.a' next to
    'a.a.<any>.x', or '<any>.a' next to '<any>.a.<any>.x'."""
    keys = [e["k"] for e in cfg]
    for k2 in keys:
        for i, seg in enumerate(k2):
            if seg == "<any>" and i >= 1 and k2[i - 1] != "<any>":
                if any(k1 == k2[:i] for k1 in keys):
                    return True
    return False


def gen_replay_cfg(v, wd, consts, names, depth, sim_stride, tag, mc_inv=True):
    inv = "AnyIsOneSegment NoPrefixLeak ExactKeyMatchesItsPath Emit" if mc_inv else "Emit"
    cfg = f"""CONSTANTS {consts}
SPECIFICATION CfgSpec
INVARIANTS {inv}
CHECK_DEADLOCK FALSE
"""
    beh = os.path.join(wd, f"cfgs_{tag}.txt")
    r = tlc("Gen_Props", cfg, wd, printed_to=beh)
    if r.violation:
        v.spec_violation("Props", r)
        return
    v.add_tlc(f"Props matching definition ({tag})", r, consts)
    shards, total = vlib.shard_lines(beh, wd, vlib.NCPU, prefix=f"sh_{tag}_")
    log(f"[C17] Gen_Props[{tag}]: {total} configurations in {r.wall:.1f}s")
    outs = vlib.run_vh_parallel([["props", "replay", s, "--names", names, "--depth", str(depth), "--sim-stride", str(sim_stride)]
                                 for s in shards])
    tot = vlib.collect(v, outs, "props", "capturing configuration for modules")
    v.cov["traces_validated_against_impl"] += int(tot.get("replays", 0))
    v.cov["evaluations"] += int(tot.get("checks", 0))
    v.cov["distinct_nontrivial"] += int(tot.get("nontrivial", 0))
    v.cov.setdefault("gen_runs", []).append({"what": tag, "configurations": total, "constants": consts})
    if len(v.cov["samples"]) < 2:
        v.cov["samples"].extend(tot.get("samples", [])[:1])
    seen = set()
    for m in tot.get("mismatches", []):
        shadow = shadow_sig(m.get("behaviour", {}).get("cfg", []))
        key = (m.get("field"), shadow)
        if key in seen:
            continue
        seen.add(key)
        v.add_violation(f"{m.get('field')}: path {m.get('path')} yaml {json.dumps(m.get('yaml'), ensure_ascii=False)} expected "
                        f"{m.get('expected', m.get('expected_one_of'))} got {m.get('got')}", m,
                        {"suite": "props", "plain_entry_equals_literal_prefix_of_wildcard_entry": shadow})
    if int(tot.get("mismatch_count", 0)):
        v.cov["replay_mismatches"] = v.cov.get("replay_mismatches", 0) + int(tot["mismatch_count"])


def gen_replay_slots(v, wd, tier):
    ops = 4 if tier == "quick" else 5
    consts = f'Types = {{"u32", "i64", "string", "bool"}} MaxOps = {ops}'
    r = tlc("PropSlot", f"CONSTANTS {consts}\nSPECIFICATION TSpec\nPROPERTIES TypeSticky ErrPure NoReinterpret\nCHECK_DEADLOCK FALSE\n", wd)
    v.add_tlc("PropSlot typing state machine", r, consts)
    if r.violation:
        v.spec_violation("PropSlot", r)
    beh = os.path.join(wd, "slots.txt")
    r = tlc("Gen_PropSlot", f"CONSTANTS {consts}\nSPECIFICATION GSpec\nINVARIANT Emit\nCHECK_DEADLOCK FALSE\n", wd, printed_to=beh)
    if not r.ok:
        raise vlib.ToolError("Gen_PropSlot failed:\n" + r.tail)
    shards, total = vlib.shard_lines(beh, wd, vlib.NCPU, prefix="sh_slot_")
    log(f"[C17] Gen_PropSlot: {total} access sequences in {r.wall:.1f}s")
    outs = vlib.run_vh_parallel([["props", "slots", s] for s in shards])
    tot = vlib.collect(v, outs, "props", "replaying typed property accesses")
    v.cov["traces_validated_against_impl"] += int(tot.get("replays", 0))
    v.cov["evaluations"] += int(tot.get("checks", 0))
    v.cov["distinct_nontrivial"] += int(tot.get("nontrivial", 0))
    v.cov["slot_sequences"] = total
    seen = set()
    for m in tot.get("mismatches", []):
        if m.get("field") in seen:
            continue
        seen.add(m.get("field"))
        v.add_violation(f"property typing: {m.get('field')} at step {m.get('step')}", m, {"suite": "propslot", "field": m.get("field")})


def c17(tier):
    v = Verdict("C17", tier)
    vlib.build_harness()
    wd = workdir("C17")
    segs = 'Segs = {"a", "ab", "<any>", "x"} Names = {"a", "ab", "x"}'
    gen_replay_cfg(v, wd, f"{segs} MaxKeyLen = 3 MaxEntries = 2 MaxDepth = 2", "a,ab,x", 2, 3, "k3e2")
    gen_replay_cfg(v, wd, f"{segs} MaxKeyLen = 4 MaxEntries = 2 MaxDepth = 3", "a,ab,x", 3, 60, "k4e2")
    if tier == "thorough":
        gen_replay_cfg(v, wd, f"{segs} MaxKeyLen = 3 MaxEntries = 3 MaxDepth = 2", "a,ab,x", 2, 200, "k3e3", mc_inv=False)
        gen_replay_cfg(v, wd, 'Segs = {"a", "ab", "b", "<any>"} Names = {"a", "ab", "b"} MaxKeyLen = 4 MaxEntries = 2 MaxDepth = 3',
                       "a,ab,b", 3, 100, "k4e2b", mc_inv=False)
    gen_replay_slots(v, wd, tier)
    v.cov["rule"] = ("every flat configuration of <= 2 (thorough: 3) entries with keys of 2..4 segments over {a, ab, <any>, x} x every "
                     "module path of depth <= 3 x three name embeddings (identity, shared textual prefix alice/alicent, multi-byte): "
                     "Cfg::capture_for_into for every path, and a real SimBuilder with include_cfg before and after node creation for a "
                     "sample; every typed access sequence of <= 4 (5) operations over 4 types on a slot that starts absent or configured. "
                     "Non-trivial = config has a wildcard or names that are textual prefixes of each other / sequence contains a refused access")
    v.cov["exhaustive"] = True
    v.assumptions = ["flat dotted-key configurations only (nested YAML mappings are outside the property's quantifier)",
                     "property names never contain '<any>'"]
    return v.finish()


def c17_replay(path):
    vlib.build_harness()
    wd = workdir("C17_replay")
    with open(path) as fh:
        d = json.load(fh).get("detail", {})
    beh = d.get("behaviour")
    p = os.path.join(wd, "beh.txt")
    with open(p, "w") as fh:
        fh.write(json.dumps(beh) + "\n")
    if isinstance(beh, list):
        out = vlib.run_vh_parallel([["props", "slots", p]])[0]
    else:
        out = vlib.run_vh_parallel([["props", "replay", p, "--names", "a,ab,x", "--depth", "3", "--sim-stride", "1"]])[0]
    log(json.dumps(out, ensure_ascii=False)[:3000])
    return 1 if out.get("crash") or out.get("hang") or out.get("mismatch_count") else 0
