"""C08 (wiring + delivery along chains) and C19 (topology views): Gates.tla, `vh gates replay`."""
import json
import os

import vlib
from vlib import Verdict, log, tlc, workdir

OWNERS = {"Own5x3": ("1,1,2,2,3", 3), "Own6x4": ("1,1,2,2,3,4", 4), "Own6x3": ("1,1,2,2,3,3", 3),
          "Own6x2": ("1,1,1,2,2,2", 2), "Own4x4": ("1,2,3,4", 4)}

C08_FIELDS = ("connect outcome", "kind of gate", "path_iter", "next_gate", "path_end", "deliveries", "receiver of",
              "arrival time", "header", "total number of deliveries", "run ")
C19_FIELDS = ("global:", "spanned(", "filter_nodes(", "filter_edges(", "dijkstra(")


def mc(v, wd, own, ng, nm, calls):
    cfg = f"""CONSTANTS NG = {ng} NM = {nm} Owner <- {own} MaxCalls = {calls}
SPECIFICATION Spec
INVARIANTS AtMostTwo NoSelf Symmetry DistinctPeers EndpointSlot0 Mirror
PROPERTIES Idempotent FailsChangeNothing
CHECK_DEADLOCK FALSE
"""
    r = tlc("Gates", cfg, wd)
    v.add_tlc(f"Gates wiring invariants {own} calls<={calls}", r, f"NG={ng} NM={nm}")
    if r.violation:
        v.spec_violation("Gates", r)


def gen_replay(v, wd, prop, own, ng, nm, calls, variants, mine, tag):
    cfg = f"""CONSTANTS NG = {ng} NM = {nm} Owner <- {own} MaxCalls = {calls}
SPECIFICATION GSpec
INVARIANT Emit
VIEW View
CHECK_DEADLOCK FALSE
"""
    beh = os.path.join(wd, f"beh_{tag}.txt")
    r = tlc("Gen_Gates", cfg, wd, printed_to=beh)
    if not r.ok:
        raise vlib.ToolError("Gen_Gates failed:\n" + r.tail)
    shards, total = vlib.shard_lines(beh, wd, vlib.NCPU, prefix=f"sh_{tag}_")
    log(f"[{prop}] Gen_Gates[{own}, {calls} calls]: {total} distinct wirings (one witness call sequence each) in {r.wall:.1f}s")
    owner_csv = OWNERS[own][0]
    outs = vlib.run_vh_parallel([["gates", "replay", s, "--owner", owner_csv, "--nm", str(nm), "--variants", str(variants)]
                                 for s in shards])
    tot = vlib.collect(v, outs, "gates", "replaying wirings")
    v.cov["traces_validated_against_impl"] += int(tot.get("replays", 0))
    v.cov["evaluations"] += int(tot.get("checks", 0))
    v.cov["distinct_nontrivial"] += int(tot.get("nontrivial", 0))
    v.cov.setdefault("gen_runs", []).append({"owner": own, "calls": calls, "wirings": total})
    if len(v.cov["samples"]) < 2:
        v.cov["samples"].extend(tot.get("samples", [])[:1])
    seen = set()
    other = 0
    for m in tot.get("mismatches", []):
        f = m.get("field", "")
        is_mine = any(f.startswith(x) or x in f for x in mine)
        # one example per (query, aspect): "filter_edges(...): bidirectional [..]" -> "filter_edges: bidirectional [..]"
        key = (f.split("(")[0].strip() + ":" + f.split(":")[-1]) if is_mine else f
        if not is_mine:
            other += 1
            continue
        if key in seen:
            continue
        seen.add(key)
        v.add_violation(f"{f}: expected {str(m.get('expected'))[:300]} got {str(m.get('got'))[:300]} after calls {json.dumps(m.get('calls'))[:300]}",
                        m, {"suite": "gates", "field": key, "bidirectional_answers_at_node_level": "[answers at node level" in f})
    if other:
        v.cov["mismatches_of_sibling_property"] = v.cov.get("mismatches_of_sibling_property", 0) + other
        log(f"[{prop}] note: {other} mismatch example(s) concern the sibling property (C08 <-> C19) and are reported by its check")


def record_validate(v, wd, tier):
    """Direction V: random wirings over 12 gates / 7 modules, observations validated by TLC (Trace_Gates)."""
    from concurrent.futures import ThreadPoolExecutor
    import c_fes
    runs = 150 if tier == "quick" else 1500
    files = [os.path.join(wd, f"gtrace{i}.ndjson") for i in range(vlib.NCPU)]
    # even files: sparse graphs on 7 modules, odd files: dense graphs on 5 modules
    outs = vlib.run_vh_parallel([["gates", "record", "--seed", str(vlib.seed() * 100 + i), "--runs", str(runs), "--out", f,
                                  "--dense", str(i % 3)] for i, f in enumerate(files)])
    vlib.collect(v, outs, "gates", "recording topology observations of random wirings")

    def one(i):
        if "crash" in outs[i] or "hang" in outs[i] or not os.path.exists(files[i]):
            return 0, [], None
        consts = ["NG = 12 NM = 7 Owner <- Own12x7 MaxCalls = 1000", "NG = 12 NM = 5 Owner <- Own12x5 MaxCalls = 1000",
                  "NG = 12 NM = 6 Owner <- Own12x6 MaxCalls = 1000"][i % 3]
        return c_fes.validate_trace_file("Trace_Gates", consts, files[i], wd, f"g{i}")
    with ThreadPoolExecutor(max_workers=8) as ex:
        results = list(ex.map(one, range(len(files))))
    acc = 0
    with_obs = 0
    for a, rej, r in results:
        acc += a
        if r is not None:
            v.add_tlc("Trace_Gates validation", r)
        for x in rej:
            v.add_violation("recorded wiring / topology observation contradicts the definitions in Gates.tla (first unmatched line "
                            f"{x['first_unmatched_line_in_run']} of the run: {json.dumps(x['run'][x['first_unmatched_line_in_run'] - 1])[:300]})",
                            x, {"suite": "gates", "kind": "trace"})
    for f in files:
        if os.path.exists(f):
            with_obs += sum(1 for ln in open(f) if '"op":"obs"' in ln)
    v.cov["traces_validated_against_impl"] += acc
    v.cov["recorded_runs_accepted"] = acc
    v.cov["recorded_runs_with_observation"] = with_obs
    log(f"[C19] Trace_Gates: {acc} recorded runs accepted ({with_obs} with full topology observation, 12 gates on 7 resp. 5 modules)")


def c08(tier):
    v = Verdict("C08", tier)
    vlib.build_harness()
    wd = workdir("C08")
    mc(v, wd, "Own5x3", 5, 3, 5 if tier == "quick" else 6)
    if tier == "thorough":
        mc(v, wd, "Own6x4", 6, 4, 5)
    gen_replay(v, wd, "C08", "Own5x3", 5, 3, 4, 2, C08_FIELDS, "a")
    gen_replay(v, wd, "C08", "Own6x2", 6, 2, 3 if tier == "quick" else 4, 2, C08_FIELDS, "b")
    if tier == "thorough":
        gen_replay(v, wd, "C08", "Own6x4", 6, 4, 5, 2, C08_FIELDS, "c")
    v.cov["rule"] = ("every distinct wiring reachable by <= k connect calls (self / repeated / over-full calls included) over 5-6 gates on "
                     "2-4 modules, one witness call order each (the slot layout distinguishes orders): connect outcome, kind, path_iter, "
                     "next_gate, path_end for every gate; then a simulation in which every chain endpoint sends an immediate and a delayed "
                     "message through channels with pairwise distinct power-of-two latencies: receiver, exactly-once, arrival time = sum of "
                     "hop delays, header sender/receiver/last_gate. Non-trivial = wiring with a transit gate and >= 2 edges")
    v.cov["exhaustive"] = True
    v.assumptions = ["a connect that panics because a gate already has two peers poisons the gate locks; such wirings are only checked "
                     "for the panic itself (DESIGN C08)"]
    return v.finish()


def c19(tier):
    v = Verdict("C19", tier)
    vlib.build_harness()
    wd = workdir("C19")
    mc(v, wd, "Own6x4", 6, 4, 4 if tier == "quick" else 5)
    gen_replay(v, wd, "C19", "Own6x4", 6, 4, 4 if tier == "quick" else 5, 1, C19_FIELDS, "a")
    gen_replay(v, wd, "C19", "Own5x3", 5, 3, 4, 1, C19_FIELDS, "b")
    # rings (two paths of different length between modules) need two gates on each of three modules
    gen_replay(v, wd, "C19", "Own6x3", 6, 3, 4 if tier == "quick" else 5, 1, C19_FIELDS, "c")
    record_validate(v, wd, tier)
    v.cov["rule"] = ("for every distinct wiring in the bound: Globals::topology and Topology::spanned(root) for every root (node set, edge "
                     "set with gate labels, edges_for), connected, bidirectional, filter_nodes for every subset of modules, dijkstra from "
                     "every source (key set = reachable nodes, value = any first edge of a minimum-hop path), all compared with the "
                     "definitions in Gates.tla")
    v.cov["exhaustive"] = True
    return v.finish()


def _replay(prop, path):
    vlib.build_harness()
    wd = workdir(prop + "_replay")
    with open(path) as fh:
        d = json.load(fh).get("detail", {})
    beh = d.get("behaviour")
    if beh is None:
        log("no behaviour in replay file")
        return 2
    p = os.path.join(wd, "beh.txt")
    with open(p, "w") as fh:
        fh.write(json.dumps(beh) + "\n")
    owner = ",".join(str(x) for x in d.get("owner", [1, 1, 2, 2, 3]))
    nm = max(d.get("owner", [3]))
    out = vlib.run_vh_parallel([["gates", "replay", p, "--owner", owner, "--nm", str(nm), "--variants", "6"]])[0]
    log(json.dumps(out)[:3000])
    return 1 if out.get("crash") or out.get("hang") or out.get("mismatch_count") else 0


def c08_replay(path):
    return _replay("C08", path)


def c19_replay(path):
    return _replay("C19", path)
