#!/bin/bash
# runs every registered check (tier $1, default quick) on the current tree; prints one line per property
tier=${1:-quick}
cd "$(dirname "$0")/.."
for id in $(python3 -c "import json;print(' '.join(c['property_id'] for c in json.load(open('MANIFEST.json'))['checks']))"); do
  s=$(date +%s)
  out=$(./check $id --tier $tier 2>&1); rc=$?
  e=$(date +%s)
  echo "$id rc=$rc $((e-s))s $(echo "$out" | grep -E "^\[$id\] tier" | sed 's/.*states=/states=/')"
  echo "$out" | grep -E "VIOLATION|TOOL-ERROR|KNOWN-FINDING" | cut -c1-160 | head -4
done
