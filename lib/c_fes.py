"""C01 / C03 (queue level) / payload half of C15: FES + CQueue specs, G and V bindings."""
import json
import os
from concurrent.futures import ThreadPoolExecutor

import vlib
from vlib import Verdict, log, tlc, workdir, seed

TRACE_JVM = "-Xmx3g -Xss1g -Dtlc2.tool.queue.IStateQueue=StateDeque"


def mc_fes(v, wd, tier):
    times = "{0,1,2,3}" if tier == "quick" else "{0,1,2,3,4}"
    maxid = 3 if tier == "quick" else 4
    cfg = f"""CONSTANTS Times = {times} MaxId = {maxid}
SPECIFICATION Spec
INVARIANTS TypeOK NoPast ClsZeroAtCur UniqueIds PayInv LenLaw
PROPERTIES Monotone ExactlyOnce FetchSound
CHECK_DEADLOCK FALSE
"""
    r = tlc("FES", cfg, wd, coverage=True)
    v.add_tlc("FES contract invariants", r, f"Times={times} MaxId={maxid}")
    if r.violation:
        v.spec_violation("FES", r)
    return r


def mc_cqueue(v, wd, tier):
    """CQueue (mechanism, repaired cancel) refines FES for every (N, W) in the bound."""
    if tier == "quick":
        grid = [(1, 1, 3), (2, 1, 3), (3, 1, 3), (1, 2, 3)]
    else:
        grid = [(1, 1, 3), (2, 1, 3), (3, 1, 3), (1, 2, 3), (2, 2, 3), (4, 1, 3), (2, 3, 3), (3, 2, 3), (2, 1, 4)]
    for (n, w, maxid) in grid:
        top = 2 * n * w + 1
        times = "{" + ",".join(str(i) for i in range(0, min(top, 9) + 1)) + "}"
        cfg = f"""CONSTANTS N = {n} W = {w} Times = {times} MaxId = {maxid} FixD1 = TRUE
SPECIFICATION Spec
INVARIANTS LenOK Sorted InBucket ZeroAtCur NoPast Window
PROPERTIES Refines
CHECK_DEADLOCK FALSE
"""
        r = tlc("CQueue", cfg, wd)
        v.add_tlc(f"CQueue refines FES N={n} W={w}", r, f"Times={times} MaxId={maxid}")
        if r.violation:
            v.spec_violation(f"CQueue(N={n},W={w})", r)


def gen_and_replay(v, wd, tier, prop, bound=None):
    if bound:
        times, maxid, depth, stride = bound
    elif tier == "quick":
        times, maxid, depth, stride = "{0,1,2,3}", 3, 7, 1
    else:
        times, maxid, depth, stride = "{0,1,2,3,4}", 4, 8, 1
    max_tick = int(times.strip("{}").split(",")[-1])
    cfg = f"""CONSTANTS Times = {times} MaxId = {maxid} Depth = {depth}
SPECIFICATION GSpec
INVARIANT Emit
CHECK_DEADLOCK FALSE
"""
    beh = os.path.join(wd, "behaviours.txt")
    r = tlc("Gen_FES", cfg, wd, printed_to=beh)
    if not r.ok:
        raise vlib.ToolError("Gen_FES failed:\n" + r.tail)
    shards, total = vlib.shard_lines(beh, wd, vlib.NCPU)
    log(f"[{prop}] Gen_FES: {total} behaviours (depth {depth}, Times={times}, MaxId={maxid}) in {r.wall:.1f}s")
    arg_lists = [["fes", "replay", s, "--tier", tier, "--max-tick", str(max_tick), "--cfg-stride", str(stride)]
                 for s in shards]
    outs = vlib.run_vh_parallel(arg_lists)
    tot = vlib.collect(v, outs, "fes", "replaying FES behaviours on CQueue")
    v.cov["traces_validated_against_impl"] += int(tot.get("replays", 0))
    v.cov["evaluations"] += int(tot.get("checks", 0))
    v.cov["distinct_nontrivial"] += int(tot.get("nontrivial", 0))
    v.cov["gen_behaviours"] = total
    v.cov["gen_exhaustive_bound"] = f"all FES behaviours with <= {depth - 1} operations + queue drop, Times={times}, {maxid + 1} ids"
    v.cov["configs_per_behaviour"] = tot.get("extra", {}).get("configs")
    v.cov["samples"].extend(tot.get("samples", [])[:2])
    for m in tot.get("mismatches", [])[:5]:
        v.add_violation(f"CQueue deviates from the FES contract: {m.get('field')} expected {m.get('expected')} got {m.get('got')} "
                        f"at step {m.get('step')} under {m.get('cfg')}", m, {"suite": "fes", "field": m.get("field")})
    if int(tot.get("mismatch_count", 0)):
        v.cov["replay_mismatches"] = int(tot["mismatch_count"])
    return total


def split_runs(path, marker='"op":"reset"'):
    runs, cur = [], []
    with open(path) as fh:
        for line in fh:
            if marker in line.replace(" ", "") and cur:
                runs.append(cur)
                cur = []
            cur.append(line)
    if cur:
        runs.append(cur)
    return runs


def validate_trace_file(module, consts, path, wd, tag, invariant=None, reset_marker='"op":"reset"'):
    """Validate one ndjson file with a Trace_* module. Returns (accepted_runs, rejected list)."""
    inv = f"INVARIANT {invariant}\n" if invariant else ""
    cfg = f"""CONSTANTS {consts}
SPECIFICATION TSpec
{inv}POSTCONDITION Accepted
CHECK_DEADLOCK FALSE
"""
    runs = split_runs(path, reset_marker)
    rejected = []
    accepted = 0
    cur_path = path
    attempts = 0
    while runs and attempts < 4:
        attempts += 1
        sub = os.path.join(wd, f"v_{tag}_{attempts}")
        os.makedirs(sub, exist_ok=True)
        r = tlc(module, cfg, sub, workers=1, env={"TRACE": cur_path}, jvm=TRACE_JVM, extra=[], timeout=1200)
        if r.ok and not r.violation:
            accepted += len(runs)
            return accepted, rejected, r
        if not r.rejected:
            raise vlib.ToolError(f"trace validation failed without a rejection line:\n{r.tail}")
        # <<"REJECTED", lineno, record>>
        try:
            lineno = int(r.rejected.split(",")[1].strip(" >FALSE\n"))
        except Exception:
            raise vlib.ToolError("cannot parse rejection: " + r.rejected)
        # find the run containing that line
        acc = 0
        idx = 0
        for idx, run in enumerate(runs):
            if acc + len(run) >= lineno:
                break
            acc += len(run)
        bad = runs[idx]
        rejected.append({"first_unmatched_line_in_run": lineno - acc, "tlc": r.rejected[:600], "run": [json.loads(x) for x in bad]})
        accepted += idx
        runs = runs[idx + 1:]
        cur_path = os.path.join(wd, f"rest_{tag}_{attempts}.ndjson")
        with open(cur_path, "w") as fh:
            for run in runs:
                fh.writelines(run)
    return accepted, rejected, None


def record_and_validate(v, wd, tier, prop):
    nproc = vlib.NCPU
    runs, ops = (40, 150) if tier == "quick" else (200, 300)
    files = [os.path.join(wd, f"trace{i}.ndjson") for i in range(nproc)]
    arg_lists = [["fes", "record", "--seed", str(seed() * 1000 + i), "--runs", str(runs), "--ops", str(ops), "--out", f]
                 for i, f in enumerate(files)]
    outs = vlib.run_vh_parallel(arg_lists)
    vlib.collect(v, outs, "fes", "driving CQueue with a random history")
    for o in outs:
        for m in o.get("mismatches", []):
            v.add_violation(f"CQueue panicked in a random history: {m.get('error')}", m, {"suite": "fes", "kind": "panic"})

    def one(i):
        if not os.path.exists(files[i]) or "hang" in outs[i] or "crash" in outs[i]:
            return 0, [], None
        return validate_trace_file("Trace_FES", "Times = {} MaxId = 260", files[i], wd, str(i))
    with ThreadPoolExecutor(max_workers=8) as ex:
        results = list(ex.map(one, range(nproc)))
    acc_total = 0
    for acc, rej, r in results:
        acc_total += acc
        if r is not None:
            v.add_tlc("Trace_FES validation", r)
        for x in rej:
            v.add_violation("recorded CQueue history is not a behaviour of FES (first unmatched line "
                            f"{x['first_unmatched_line_in_run']}): {x['tlc'][:200]}", x, {"suite": "fes", "kind": "trace"})
    v.cov["traces_validated_against_impl"] += acc_total
    v.cov["recorded_runs_accepted"] = acc_total
    v.cov["recorded_ops_per_run"] = ops
    log(f"[{prop}] Trace_FES: {acc_total} recorded runs of {ops} ops accepted")


def far_end(v):
    """Events at Duration::MAX (the timestamp of the bucket lists' own sentinels): queued, cancellable, fetched in
    scheduling order, dropped once (the fixed cases of `vh alloc maxtime`)."""
    import c_alloc
    c_alloc.maxtime(v, None, None)


def c01(tier):
    v = Verdict("C01", tier)
    vlib.build_harness()
    wd = workdir("C01")
    mc_fes(v, wd, tier)
    mc_cqueue(v, wd, tier)
    gen_and_replay(v, wd, tier, "C01")
    record_and_validate(v, wd, tier, "C01")
    far_end(v)
    v.cov["rule"] = ("G: every FES behaviour in the bound (TLC BFS with a history variable) replayed on CQueue under the "
                     "(n,w) x embedding x payload grid; non-trivial = contains a tie, an add at the current time or a cancel of "
                     "an event at the current time. V: seeded adaptive random histories validated by Trace_FES.")
    v.cov["exhaustive"] = True
    v.assumptions = ["expected results are embedding independent: FES uses times only through <, = (DESIGN 2.3)",
                     "TLC, the Rust compiler and the harness are trusted"]
    return v.finish()


def c03(tier):
    """Tie order: the dispatch key (t, cls, id) of FES *is* C03. Queue level (tie-heavy FES behaviours on
    CQueue for all configurations) + runtime level (handlers emitting same-instant bursts)."""
    import c_rt
    v = Verdict("C03", tier)
    vlib.build_harness()
    wd = workdir("C03")
    mc_fes(v, wd, tier)
    mc_cqueue(v, wd, "quick")
    # few distinct times, many ids: almost every behaviour contains ties and adds at the current time
    if tier == "quick":
        gen_and_replay(v, wd, tier, "C03", bound=("{0,1,2}", 4, 8, 1))
    else:
        gen_and_replay(v, wd, tier, "C03", bound=("{0,1,2}", 5, 9, 1))
    consts = ("MaxT = 2 MaxId = 4 MaxSteps = 1 MaxExt = 2\n Menu <- MenuTies Seed = TRUE Starts = {0, 2} Limits <- LimitsNone HeapInit = FALSE"
              if tier == "quick" else
              "MaxT = 2 MaxId = 5 MaxSteps = 1 MaxExt = 2\n Menu <- MenuTies Seed = TRUE Starts = {0, 2} Limits <- LimitsNone HeapInit = FALSE")
    c_rt.gen_replay(v, wd, tier, "C03", consts, 8, "handlers emitting same-instant bursts and zero-delay follow-ups")
    # V: long random histories incl. floods of 66..105 events for the current instant (more than any fixed-size fast path holds)
    record_and_validate(v, wd, tier, "C03")
    far_end(v)
    # net level: messages and self-messages emitted by one handler for the same future instants (buffer flush order)
    import c_net
    c_net.run_scn(v, wd, "C03", c_net.Scn("burst", menu="MenuBurst", start="StartBurst", tx="TxZero", lat="Lat1",
                                          max_inv=3 if tier == "quick" else 4, max_t=6), mc=False, heap=True)
    v.cov["rule"] = ("tie-heavy behaviours (3 time values, 5-6 events): queue level on CQueue under every (n,w) x embedding (ties on bucket "
                     "boundaries, year multiples, sub-bucket offsets), runtime level with zero-delay follow-ups after older events of the "
                     "same timestamp; the dispatch sequence is compared as a sequence")
    v.cov["exhaustive"] = True
    v.assumptions = ["queue level: des-cqueue; runtime and net level: both event-set backends (cqueue feature on and off)"]
    return v.finish()


def c03_replay(path):
    with open(path) as fh:
        d = json.load(fh).get("detail", {})
    if isinstance(d.get("behaviour"), list) and d["behaviour"] and d["behaviour"][0].get("op") == "cfg":
        import c_rt
        return c_rt._replay("C03", path)
    return _replay("C03", path)


def _replay(prop, path):
    vlib.build_harness()
    wd = workdir(prop + "_replay")
    with open(path) as fh:
        viol = json.load(fh)
    d = viol.get("detail", {})
    beh = d.get("behaviour")
    if beh is None and "run" not in d and str(d.get("field", "")).startswith("queue with"):
        # one of the fixed far-end cases (events / ties at Duration::MAX): run them again
        out = vlib.run_vh_parallel([["alloc", "maxtime"]])[0]
        log(json.dumps(out)[:2000])
        return 1 if out.get("crash") or out.get("mismatch_count") else 0
    if beh is None and "run" in d:
        # a rejected recorded run: re-validate it as is
        p = os.path.join(wd, "run.ndjson")
        with open(p, "w") as fh:
            for rec in d["run"]:
                fh.write(json.dumps(rec) + "\n")
        acc, rej, _ = validate_trace_file("Trace_FES", "Times = {} MaxId = 260", p, wd, "r")
        log("accepted" if not rej else "rejected again (note: the recorded run is validated, not re-executed)")
        return 1 if rej else 0
    p = os.path.join(wd, "beh.txt")
    with open(p, "w") as fh:
        fh.write(json.dumps(beh) + "\n")
    out = vlib.run_vh_parallel([["fes", "replay", p, "--tier", "thorough", "--max-tick", "5"]])[0]
    log(json.dumps(out)[:2000])
    return 1 if out.get("crash") or out.get("mismatch_count") else 0


def c01_replay(path):
    return _replay("C01", path)
