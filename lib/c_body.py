"""C16: message bodies (Body.tla), `vh body replay`."""
import json
import os

import vlib
from vlib import Verdict, log, tlc, workdir

KIND_SETS = [
    '{"u32a", "i32a", "f32a", "arr4"}',      # four types of identical size/layout
    '{"str5", "str0", "vec3", "unit"}',      # String / Vec<u8> share a layout; zero-sized
    '{"optS", "optN", "resE", "ncl"}',       # options/results, a non-clonable body
    '{"stA", "stB", "enU", "enT"}',          # derived struct / enum
    '{"enN", "gen", "ncl", "u32a"}',         # nested derive, generic derive
    '{"zst", "dq", "unit", "vec3"}',         # zero-sized type with destructor, wrapped ring buffer
]


def c16(tier):
    v = Verdict("C16", tier)
    vlib.build_harness()
    wd = workdir("C16")
    ops = 4 if tier == "quick" else 5
    for i, ks in enumerate(KIND_SETS):
        consts = f"Handles = {{1, 2}} Kinds = {ks} MaxOps = {ops} MaxCells = 3"
        r = tlc("Body", f"CONSTANTS {consts}\nSPECIFICATION Spec\nINVARIANTS DropAtMostOnce DropWhenUnheld NoAlias\n"
                        "PROPERTIES TypeSafe FailedCastPure\nCHECK_DEADLOCK FALSE\n", wd)
        v.add_tlc(f"Body contract, kinds {ks}", r, consts)
        if r.violation:
            v.spec_violation("Body", r)
            continue
        beh = os.path.join(wd, f"beh_{i}.txt")
        g = tlc("Gen_Body", f"CONSTANTS {consts}\nSPECIFICATION GSpec\nINVARIANT Emit\nCHECK_DEADLOCK FALSE\n", wd, printed_to=beh)
        if not g.ok:
            raise vlib.ToolError("Gen_Body failed:\n" + g.tail)
        shards, total = vlib.shard_lines(beh, wd, vlib.NCPU, prefix=f"sh_{i}_")
        log(f"[C16] Gen_Body kinds {ks}: {total} operation sequences ({ops} ops) in {g.wall:.1f}s")
        outs = vlib.run_vh_parallel([["body", "replay", s] for s in shards])
        tot = vlib.collect(v, outs, "body", "replaying message-body operation sequences")
        v.cov["traces_validated_against_impl"] += int(tot.get("replays", 0))
        v.cov["evaluations"] += int(tot.get("checks", 0))
        v.cov["distinct_nontrivial"] += int(tot.get("nontrivial", 0))
        v.cov.setdefault("gen_runs", []).append({"kinds": ks, "sequences": total})
        if len(v.cov["samples"]) < 2:
            v.cov["samples"].extend(tot.get("samples", [])[:1])
        seen = set()
        for m in tot.get("mismatches", []):
            if m.get("field") in seen:
                continue
            seen.add(m.get("field"))
            v.add_violation(f"message body: {m.get('field')} expected {m.get('expected')} got {m.get('got')} at step {m.get('step')}",
                            m, {"suite": "body", "field": m.get("field")})
    v.cov["rule"] = ("every sequence of <= 4 (thorough 5) operations (new with 18 body kinds over 13 Rust types incl. layout-compatible "
                     "pairs, zero-sized, non-clonable, derived/nested/generic derive; new without body; try_clone; try_cast<T>; "
                     "try_content<T>/can_cast<T>/length; drop; drop of a cast-out value) over 2 message variables, T ranging over the "
                     "types in play plus a foreign one: results, values, lengths (64 + declared byte length from the spec's type trees) and "
                     "per-value destructor counts after every step. Non-trivial = contains a refused access and a successful cast or clone")
    v.cov["exhaustive"] = True
    v.assumptions = ["mutation through try_content_mut is outside the property's operation set (length is fixed at creation)"]
    return v.finish()


def c16_replay(path):
    vlib.build_harness()
    wd = workdir("C16_replay")
    with open(path) as fh:
        d = json.load(fh).get("detail", {})
    p = os.path.join(wd, "beh.txt")
    with open(p, "w") as fh:
        fh.write(json.dumps(d.get("behaviour")) + "\n")
    out = vlib.run_vh_parallel([["body", "replay", p]])[0]
    log(json.dumps(out)[:3000])
    return 1 if out.get("crash") or out.get("hang") or out.get("mismatch_count") else 0
