"""Net.tla scenarios: C07, C09, C12(order part), C13, C14 and the Net-level part of C03."""
import json
import os

import vlib
from vlib import Verdict, log, tlc, workdir

INVS = "NoStuck BusyHasUnbusy AccIsSum QueueWithinLimit NoDuplicates NoPastEvents"

# Named constant tables of MC_Net.tla and their concrete counterparts for the harness.
TX = {
    "TxLin": {"bitrate": 512000, "tick_ns": 1_000_000, "bytes": [64, 128, 192], "BytesOf": "Bytes3"},
    "TxZero": {"bitrate": 0, "tick_ns": 1_000_000, "bytes": [64, 128, 192], "BytesOf": "Bytes3"},
    "TxFast": {"bitrate": 2_000_000_000_000, "tick_ns": 1, "bytes": [64, 100, 264], "BytesOf": "BytesFast"},
}
LIMITS = {"LimNone": -1, "Lim128": 128, "Lim0": 0, "Lim200": 200}


class Scn:
    def __init__(self, name, topo="T1", stages="One1", stack="One0", catch="OneF", tx="TxLin", lat="Lat1", pol="PolDrop",
                 lim="LimNone", menu="MenuChan", start="StartChan", max_inv=6, max_t=12, fix_drain=True, jitter_ns=0, endfail="NoEndFail"):
        self.__dict__.update(locals())

    def mods(self):
        return ["a", "b"] if self.topo == "T1" else ["a", "b", "c"]

    def constants(self):
        t = self.topo
        chans = "{1}" if t == "T1" else "{1, 2}"
        return (f"Mods <- {'ModsAB' if t == 'T1' else 'ModsABC'} Stages <- {self.stages} Stack <- {self.stack} Catch <- {self.catch} EndFail <- {self.endfail} "
                f"Route <- Route{t} GateOwner <- Owner{t}\n Chans = {chans} TxOf <- {self.tx} LatOf <- {self.lat} PolicyOf <- {self.pol} "
                f"LimitOf <- {self.lim} BytesOf <- {TX[self.tx]['BytesOf']}\n Menu <- {self.menu} StartMenu <- {self.start} "
                f"MaxInv = {self.max_inv} MaxT = {self.max_t} FixDrain = {'TRUE' if self.fix_drain else 'FALSE'}")

    def harness_cfg(self):
        tx = TX[self.tx]
        table = {"One0": 0, "One1": 1, "One2": 2}
        def per_mod(name, special):
            if name in table:
                return {m: table[name] for m in "abc"}
            return special[name]
        stages = per_mod(self.stages, {"Stages212": {"a": 2, "b": 1, "c": 2}})
        stack = per_mod(self.stack, {"Stack2": {"a": 2, "b": 2, "c": 2}, "Stack012": {"a": 1, "b": 2, "c": 0}, "Stack3": {"a": 3, "b": 3, "c": 3}})
        catch = {"OneF": {m: False for m in "abc"}, "OneT": {m: True for m in "abc"}, "CatchB": {"a": False, "b": True, "c": False}}[self.catch]
        ch = {"bitrate": tx["bitrate"], "lat": 1 if self.lat == "Lat1" else 0, "policy": "drop" if self.pol == "PolDrop" else "queue",
              "limit": LIMITS[self.lim], "jitter_ns": self.jitter_ns}
        return {"mods": self.mods(), "topo": self.topo, "stages": stages, "stack": stack, "catch": catch,
                "chans": {"1": ch, "2": ch}, "tick_ns": tx["tick_ns"], "bytes": tx["bytes"], "max_t": self.max_t,
                "per_module": self.jitter_ns > 0, "endfail": ["a"] if self.endfail == "EndFailA" else []}


def run_scn(v, wd, prop, scn, mc=True):
    consts = scn.constants()
    if mc:
        r = tlc("MC_Net", f"CONSTANTS {consts}\nSPECIFICATION Spec\nINVARIANTS {INVS}\nPROPERTIES TimeMonotone\nCHECK_DEADLOCK FALSE\n", wd)
        v.add_tlc(f"Net invariants [{scn.name}]", r, consts.replace("\n", " "))
        if r.violation:
            v.spec_violation(f"Net[{scn.name}]", r)
            return
    beh = os.path.join(wd, f"beh_{scn.name}.txt")
    g = tlc("Gen_Net", f"CONSTANTS {consts}\nSPECIFICATION Spec\nINVARIANT Emit\nCHECK_DEADLOCK FALSE\n", wd, printed_to=beh)
    if not g.ok:
        raise vlib.ToolError("Gen_Net failed:\n" + g.tail)
    cfgp = os.path.join(wd, f"cfg_{scn.name}.json")
    with open(cfgp, "w") as fh:
        json.dump(scn.harness_cfg(), fh)
    shards, total = vlib.shard_lines(beh, wd, vlib.NCPU, prefix=f"sh_{scn.name}_")
    log(f"[{prop}] Gen_Net[{scn.name}]: {total} scenarios in {g.wall:.1f}s")
    outs = vlib.run_vh_parallel([["net", "replay", s, "--cfg", cfgp] for s in shards])
    tot = vlib.collect(v, outs, "net", f"running scripted simulations [{scn.name}]")
    v.cov["traces_validated_against_impl"] += int(tot.get("replays", 0))
    v.cov["evaluations"] += int(tot.get("checks", 0))
    v.cov["distinct_nontrivial"] += int(tot.get("nontrivial", 0))
    v.cov.setdefault("gen_runs", []).append({"scenario_family": scn.name, "scenarios": total, "constants": consts.replace("\n", " "),
                                             "classes": tot.get("extra", {})})
    if len(v.cov["samples"]) < 2:
        v.cov["samples"].extend(tot.get("samples", [])[:1])
    seen = set()
    for m in tot.get("mismatches", []):
        f = m.get("field")
        if f in seen:
            continue
        seen.add(f)
        v.add_violation(f"[{scn.name}] {f}: expected {json.dumps(m.get('expected'))[:200]} got {json.dumps(m.get('got'))[:200]} "
                        f"scripts {json.dumps(m.get('behaviour', {}).get('scripts'))[:400]}", m, {"suite": "net", "field": f, "family": scn.name})
    if int(tot.get("mismatch_count", 0)):
        v.cov["replay_mismatches"] = v.cov.get("replay_mismatches", 0) + int(tot["mismatch_count"])


def c07(tier):
    v = Verdict("C07", tier)
    vlib.build_harness()
    wd = workdir("C07")
    n = 5 if tier == "quick" else 6
    fam = [
        Scn("drop", pol="PolDrop", max_inv=n),
        Scn("queue", pol="PolQueue", max_inv=n),
        Scn("queue128", pol="PolQueue", lim="Lim128", max_inv=n),
        Scn("queue0", pol="PolQueue", lim="Lim0", max_inv=n - 1),
        Scn("unlimited_rate", tx="TxZero", pol="PolQueue", max_inv=n - 1),
        Scn("fast_queue", tx="TxFast", pol="PolQueue", lat="Lat0", max_inv=n),
        Scn("fast_drop_lat1", tx="TxFast", pol="PolDrop", lat="Lat1", max_inv=n - 1),
        # jitter of 1 us on a 1 ms tick grid: arrivals stay inside their tick, busy periods must not be stretched by the jitter
        Scn("jitter_drop", pol="PolDrop", max_inv=n, jitter_ns=1000),
        Scn("jitter_queue", pol="PolQueue", lim="Lim128", max_inv=n, jitter_ns=1000),
    ]
    if tier == "thorough":
        fam.append(Scn("queue_lat0", pol="PolQueue", lat="Lat0", max_inv=n))
        fam.append(Scn("queue200_fast", tx="TxFast", pol="PolQueue", lim="Lim200", lat="Lat0", max_inv=n))
    for s in fam:
        run_scn(v, wd, "C07", s)
    v.cov["rule"] = ("sender scripts chosen by TLC from a 7-entry menu (bursts of 1-3 messages of 3 sizes in one handler, gaps smaller / equal "
                     "/ larger than the transmission time via self-scheduled re-sends, delayed sends) against channels with Drop, "
                     "Queue(None), Queue(128), Queue(0), bitrate 0, and a bitrate so high that small messages have a zero transmission "
                     "time; TLC checks NoStuck / BusyHasUnbusy / AccIsSum / QueueWithinLimit / NoDuplicates on the interpreter and the real "
                     "simulation must reproduce the interpreter's delivery log (who, when, in which order). Non-trivial = >= 3 deliveries")
    v.cov["exhaustive"] = True
    v.assumptions = ["zero jitter (jitter only enters C04)", "an offer made at the instant a transmission ends is resolved by event order (C03)"]
    return v.finish()


def c09(tier):
    v = Verdict("C09", tier)
    vlib.build_harness()
    wd = workdir("C09")
    n = 7 if tier == "quick" else 8
    fam = [
        Scn("life", menu="MenuLife", start="StartLife", tx="TxLin", pol="PolQueue", max_inv=n, max_t=10),
        Scn("life2stages", menu="MenuLife", start="StartLife", stages="Stages212", tx="TxZero", max_inv=n - 1, max_t=10),
        Scn("transit", topo="T2", menu="MenuTrans", start="StartTrans", tx="TxLin", pol="PolQueue", max_inv=n, max_t=10),
    ]
    for s in fam:
        run_scn(v, wd, "C09", s)
    # tasks and timers of a module that is shut down and restarted (requested from a task)
    import c_async
    c_async.family(v, wd, "C09", "life", 2, "ProgsLife", 16, what="module restarted from a task while another task has timers pending")
    v.cov["rule"] = ("lifecycle scripts chosen by TLC: module b shuts down / shuts down and restarts (after 0, 1, 2 ticks) from message "
                     "handlers while a keeps sending and scheduling (messages in transit at shutdown, arrivals at the restart instant, "
                     "repeated cycles, one- and two-stage start-up); a transit module c going down while a sends through its gate. The "
                     "observation log (handlers with incarnation numbers, reset calls, restart stages at the restart time) must equal "
                     "the interpreter's. Non-trivial = >= 3 deliveries")
    v.cov["exhaustive"] = True
    v.assumptions = ["async tasks and timers of a shut-down module are covered by the C05/C06 suite",
                     "a shutdown requested in start-up stage i of a module with more stages is kept out of the menus (DESIGN C09)"]
    return v.finish()


def c13(tier):
    v = Verdict("C13", tier)
    vlib.build_harness()
    wd = workdir("C13")
    n = 6 if tier == "quick" else 7
    fam = [
        Scn("panic", menu="MenuPanic", start="StartPanic", tx="TxZero", max_inv=n, max_t=8),
        Scn("panic_catchB", menu="MenuPanic", start="StartPanic", tx="TxZero", catch="CatchB", max_inv=n, max_t=8),
        Scn("panic_pe", menu="MenuPanic", start="StartPanic", tx="TxLin", pol="PolQueue", stack="Stack012", max_inv=n - 1, max_t=8),
    ]
    for s in fam:
        run_scn(v, wd, "C13", s)
    v.cov["rule"] = ("panic placements chosen by TLC: any module x at_sim_start / handle_message x any occurrence, several panicking modules, "
                     "catching and non-catching stereotypes, panics after the handler already emitted messages; the simulation must not "
                     "abort, the panicked module receives nothing further, every other module's observations equal the interpreter's "
                     "(where a panicked module is simply inactive), run() reports exactly the non-catching panicked modules, and the next "
                     "scenario runs in the same process (global state stays usable)")
    v.cov["exhaustive"] = True
    return v.finish()


def c14(tier):
    v = Verdict("C14", tier)
    vlib.build_harness()
    wd = workdir("C14")
    n = 6 if tier == "quick" else 7
    fam = [
        Scn("pe2", menu="MenuPE", start="StartPE", tx="TxZero", stack="Stack2", max_inv=n, max_t=8),
        Scn("pe012", menu="MenuPE", start="StartPE", tx="TxLin", pol="PolQueue", stack="Stack012", max_inv=n, max_t=8),
        Scn("pe2_2stages", menu="MenuPE", start="StartPE", tx="TxZero", stack="Stack2", stages="Stages212", max_inv=n, max_t=8),
        # three elements: one from the default stack, two appended in ONE call by Module::stack; at_sim_end of a returns Err
        Scn("pe3_endfail", menu="MenuPE", start="StartPE", tx="TxZero", stack="Stack3", endfail="EndFailA", max_inv=n - 1, max_t=8),
    ]
    for s in fam:
        run_scn(v, wd, "C14", s)
    v.cov["rule"] = ("processing stacks of 0, 1 and 2 elements (first element from the simulation-wide default stack, further ones appended "
                     "by Module::stack), every message tagged by TLC with the element that consumes it (or none): event_start / incoming / "
                     "handler / event_end entries of every start-up stage, message and tear-down must equal the interpreter's bracket "
                     "structure")
    v.cov["exhaustive"] = True
    v.assumptions = ["brackets around timer wake-ups are checked for well-formedness in the async suite"]
    return v.finish()


def _replay(prop, path):
    vlib.build_harness()
    wd = workdir(prop + "_replay")
    with open(path) as fh:
        d = json.load(fh).get("detail", {})
    p = os.path.join(wd, "beh.txt")
    with open(p, "w") as fh:
        fh.write(json.dumps(d.get("behaviour")) + "\n")
    cfgp = os.path.join(wd, "cfg.json")
    with open(cfgp, "w") as fh:
        json.dump(d.get("cfg"), fh)
    out = vlib.run_vh_parallel([["net", "replay", p, "--cfg", cfgp]])[0]
    for m in out.get("mismatches", []):
        m.pop("behaviour", None)
    log(json.dumps(out)[:4000])
    return 1 if out.get("crash") or out.get("hang") or out.get("mismatch_count") else 0


def c07_replay(path):
    return _replay("C07", path)


def c09_replay(path):
    return _replay("C09", path)


def c13_replay(path):
    return _replay("C13", path)


def c14_replay(path):
    return _replay("C14", path)
