"""Net.tla scenarios: C07, C09, C12(order part), C13, C14 and the Net-level part of C03."""
import json
import time
import shutil
import os

import vlib
from vlib import Verdict, log, tlc, workdir

INVS = "NoStuck BusyHasUnbusy AccIsSum QueueWithinLimit NoDuplicates NoPastEvents PanickedInert"

# Named constant tables of MC_Net.tla and their concrete counterparts for the harness.
TX = {
    "TxLin": {"bitrate": 512000, "tick_ns": 1_000_000, "bytes": [64, 128, 192], "BytesOf": "Bytes3"},
    "TxZero": {"bitrate": 0, "tick_ns": 1_000_000, "bytes": [64, 128, 192], "BytesOf": "Bytes3"},
    "TxFast": {"bitrate": 2_000_000_000_000, "tick_ns": 1, "bytes": [64, 100, 264], "BytesOf": "BytesFast"},
}
LIMITS = {"LimNone": -1, "Lim128": 128, "Lim0": 0, "Lim200": 200}


def _inj(k, m, g, t, size, eat):
    return {"k": k, "m": m, "g": g, "t": t, "size": size, "eat": eat}


# must mirror MC_Net.tla
INJECT = {"NoInject": [],
          "InjectMix": [_inj("msg", "b", "", 2, 1, 0), _inj("exit", "", "ao", 1, 2, 0), _inj("msg", "b", "", 0, 1, 0),
                        _inj("msg", "a", "", 1, 1, 0), _inj("exit", "", "bo", 0, 1, 0)]}


class Scn:
    def __init__(self, name, topo="T1", stages="One1", stack="One0", catch="OneF", tx="TxLin", lat="Lat1", pol="PolDrop",
                 lim="LimNone", menu="MenuChan", start="StartChan", max_inv=6, max_t=12, fix_drain=True, jitter_ns=0, endfail="NoEndFail", replay="NoReplay", inject="NoInject", late_wire=False):
        self.__dict__.update(locals())

    def mods(self):
        return ["a", "b"] if self.topo in ("T1", "T1R") else ["a", "b", "c"]

    def constants(self):
        t = self.topo
        chans = {"T1": "{1}", "T1R": "{1, 3}"}.get(t, "{1, 2}")
        
        return (f"Mods <- {'ModsAB' if t in ('T1', 'T1R') else 'ModsABC'} Stages <- {self.stages} Stack <- {self.stack} Catch <- {self.catch} EndFail <- {self.endfail} "
                f"Route <- Route{t} GateOwner <- Owner{t}\n Chans = {chans} TxOf <- {self.tx} LatOf <- {self.lat} PolicyOf <- {self.pol} "
                f"LimitOf <- {self.lim} BytesOf <- {TX[self.tx]['BytesOf']}\n Menu <- {self.menu} StartMenu <- {self.start} "
                f"MaxInv = {self.max_inv} MaxT = {self.max_t} FixDrain = {'TRUE' if self.fix_drain else 'FALSE'} ReplayScripts <- {self.replay} Inject <- {self.inject}")

    def harness_cfg(self):
        tx = TX[self.tx]
        table = {"One0": 0, "One1": 1, "One2": 2}
        def per_mod(name, special):
            if name in table:
                return {m: table[name] for m in "abc"}
            return special[name]
        stages = per_mod(self.stages, {"Stages212": {"a": 2, "b": 1, "c": 2}})
        stack = per_mod(self.stack, {"Stack2": {"a": 2, "b": 2, "c": 2}, "Stack012": {"a": 1, "b": 2, "c": 0}, "Stack3": {"a": 3, "b": 3, "c": 3}})
        catch = {"OneF": {m: False for m in "abc"}, "OneT": {m: True for m in "abc"}, "CatchB": {"a": False, "b": True, "c": False}}[self.catch]
        ch = {"bitrate": tx["bitrate"], "lat": 1 if self.lat == "Lat1" else 0, "policy": "drop" if self.pol == "PolDrop" else "queue",
              "limit": LIMITS[self.lim], "jitter_ns": self.jitter_ns}
        return {"mods": self.mods(), "topo": self.topo, "stages": stages, "stack": stack, "catch": catch,
                "chans": {"1": ch, "2": ch}, "tick_ns": tx["tick_ns"], "bytes": tx["bytes"], "max_t": self.max_t,
                "per_module": self.jitter_ns > 0, "endfail": ["a"] if self.endfail == "EndFailA" else [],
                "inject": INJECT[self.inject], "late_wire": self.late_wire}


def invs_for(scn):
    """OfferOrder (zero jitter: deliveries preserve offer order) is required wherever no queued message has a zero
    transmission time; with TxFast it fails through finding F-C07-2 and is checked separately by C07."""
    return INVS + ("" if scn.tx == "TxFast" else " OfferOrder")


def run_scn(v, wd, prop, scn, mc=True, heap=False):
    consts = scn.constants()
    if mc:
        r = tlc("MC_Net", f"CONSTANTS {consts}\nSPECIFICATION Spec\nINVARIANTS {invs_for(scn)}\nPROPERTIES TimeMonotone\nCHECK_DEADLOCK FALSE\n", wd)
        v.add_tlc(f"Net invariants [{scn.name}]", r, consts.replace("\n", " "))
        if r.violation:
            v.spec_violation(f"Net[{scn.name}]", r)
            return
    beh = os.path.join(wd, f"beh_{scn.name}.txt")
    g = tlc("Gen_Net", f"CONSTANTS {consts}\nSPECIFICATION Spec\nINVARIANT Emit\nCHECK_DEADLOCK FALSE\n", wd, printed_to=beh)
    if not g.ok:
        raise vlib.ToolError("Gen_Net failed:\n" + g.tail)
    cfgp = os.path.join(wd, f"cfg_{scn.name}.json")
    with open(cfgp, "w") as fh:
        json.dump(scn.harness_cfg(), fh)
    shards, total = vlib.shard_lines(beh, wd, vlib.NCPU, prefix=f"sh_{scn.name}_")
    log(f"[{prop}] Gen_Net[{scn.name}]: {total} scenarios in {g.wall:.1f}s")
    outs = vlib.run_vh_parallel([["net", "replay", s, "--cfg", cfgp] for s in shards])
    tot = vlib.collect(v, outs, "net", f"running scripted simulations [{scn.name}]")
    v.cov["traces_validated_against_impl"] += int(tot.get("replays", 0))
    v.cov["evaluations"] += int(tot.get("checks", 0))
    v.cov["distinct_nontrivial"] += int(tot.get("nontrivial", 0))
    v.cov.setdefault("gen_runs", []).append({"scenario_family": scn.name, "scenarios": total, "constants": consts.replace("\n", " "),
                                             "classes": tot.get("extra", {})})
    if len(v.cov["samples"]) < 2:
        v.cov["samples"].extend(tot.get("samples", [])[:1])
    seen = set()
    for m in tot.get("mismatches", []):
        f = m.get("field")
        if f in seen:
            continue
        seen.add(f)
        v.add_violation(f"[{scn.name}] {f}: expected {json.dumps(m.get('expected'))[:200]} got {json.dumps(m.get('got'))[:200]} "
                        f"scripts {json.dumps(m.get('behaviour', {}).get('scripts'))[:400]}", m, {"suite": "net", "field": f, "family": scn.name})
    if int(tot.get("mismatch_count", 0)):
        v.cov["replay_mismatches"] = v.cov.get("replay_mismatches", 0) + int(tot["mismatch_count"])
    if heap:
        # the same scenarios with the BinaryHeap event set (des built without the `cqueue` feature)
        vlib.build_harness_heap()
        outs = vlib.run_vh_parallel([["net", "replay", s, "--cfg", cfgp] for s in shards], binary=vlib.VHH)
        toth = vlib.collect(v, outs, "net", f"running scripted simulations on the BinaryHeap backend [{scn.name}]")
        v.cov["traces_validated_against_impl"] += int(toth.get("replays", 0))
        v.cov["evaluations"] += int(toth.get("checks", 0))
        v.cov["gen_runs"][-1]["heap_backend_replays"] = int(toth.get("replays", 0))
        seen = set()
        for m in toth.get("mismatches", []):
            f = m.get("field")
            if f in seen:
                continue
            seen.add(f)
            m["backend"] = "heap"
            v.add_violation(f"[{scn.name}, BinaryHeap backend] {f}: expected {json.dumps(m.get('expected'))[:200]} got {json.dumps(m.get('got'))[:200]}",
                            m, {"suite": "net", "field": f, "family": scn.name, "backend": "heap"})


def random_scripts(rng, mods, stack, n_inv=10, bidir=False):
    """One random scenario: per module a list of command lists (the k-th handler invocation executes the k-th)."""
    def cmd(c, g="", d=0, size=1, eat=0):
        return {"c": c, "g": g, "d": d, "size": size, "eat": eat}
    gates = {"a": ["ao", "at"] if "c" in mods else ["ao"], "b": ["bo", "bi"] if bidir else ["bo"], "c": []}
    scn = {}
    for m in mods:
        lists = []
        for _ in range(n_inv):
            cl = []
            for _ in range(rng.choice([0, 1, 1, 2, 2, 3])):
                k = rng.random()
                eat = rng.choice([0, 0, 0, 1, 2, 10]) if stack else 0
                if k < 0.45 and gates[m]:
                    cl.append(cmd("send", rng.choice(gates[m]), 0, rng.choice([1, 1, 2, 3]), eat))
                elif k < 0.6 and gates[m]:
                    cl.append(cmd("sendin", rng.choice(gates[m]), rng.choice([1, 2]), rng.choice([1, 2]), eat))
                else:
                    cl.append(cmd("sched", "", rng.choice([0, 1, 1, 2]), 1, eat))
            k = rng.random()
            if k < 0.05:
                cl.append(cmd("shutdown"))
            elif k < 0.13:
                cl.append(cmd("restart", "", rng.choice([1, 2, 3])))
            elif k < 0.17:
                cl.append(cmd("panic"))
            elif k < 0.22:
                cl.insert(0, cmd("setcatch", "", rng.choice([0, 1])))
            lists.append(cl)
        scn[m] = lists
    return scn


def run_random(v, wd, prop, scn, count, tag):
    """Direction V for Net.tla: `count` random mixed scenarios for configuration `scn`: TLC computes each log, the real
    simulation must reproduce it."""
    import random
    import zlib
    rng = random.Random(vlib.seed() * 7919 + zlib.crc32((prop + tag).encode()) % 100000)
    hc = scn.harness_cfg()
    stack = any(x > 0 for x in hc["stack"].values())
    scenarios = [random_scripts(rng, scn.mods(), stack, bidir=(scn.topo == "T1R")) for _ in range(count)]
    for s_ in scenarios:
        for m in "abc":
            s_.setdefault(m, [])
    sp = os.path.join(wd, f"scenarios_{tag}.json")
    with open(sp, "w") as fh:
        json.dump(scenarios, fh)
    scn.replay = "Scenarios"
    # the scenarios become literal TLA+ definitions, in chunks checked by parallel TLC processes (one big literal or a JSON
    # file read through IOEnv is re-evaluated on every access: quadratic)
    def tla(x):
        if isinstance(x, dict):
            return "[" + ", ".join(f"{k} |-> {tla(val)}" for k, val in x.items()) + "]"
        if isinstance(x, list):
            return "<<" + ", ".join(tla(y) for y in x) + ">>"
        if isinstance(x, str):
            return json.dumps(x)
        return str(int(x))
    CH = 50
    chunks = [scenarios[i:i + CH] for i in range(0, len(scenarios), CH)]
    def one(ci):
        mod = f"Run_Net_{tag}_{ci}"
        cwd = os.path.join(wd, f"rn_{tag}_{ci}")
        os.makedirs(cwd, exist_ok=True)
        with open(os.path.join(cwd, mod + ".tla"), "w") as fh:
            fh.write(f"---- MODULE {mod} ----\nEXTENDS MC_Net, Json\nScenarios == <<\n" + ",\n".join(tla(x) for x in chunks[ci]) + "\n>>\n"
                     f'Emit == (phase = "done") => PrintT(<<"REPLAY", ToJson([k |-> scn + {ci * CH}, log |-> log, err |-> err, endfail |-> EndFail, tend |-> now, dead |-> dead])>>)\n====\n')
        return tlc(mod, f"CONSTANTS {scn.constants()}\nSPECIFICATION Spec\nINVARIANTS {invs_for(scn)} Emit\nCHECK_DEADLOCK FALSE\n", cwd,
                   workers=2, printed_to=os.path.join(cwd, "out.txt"))
    from concurrent.futures import ThreadPoolExecutor
    t0 = time.time()
    with ThreadPoolExecutor(max_workers=max(1, vlib.NCPU // 2)) as ex:
        results = list(ex.map(one, range(len(chunks))))
    wall = time.time() - t0
    for g in results:
        if g.violation:
            v.spec_violation(f"Net[{tag}] on a random scenario", g)
            return
    g = results[0]
    g.distinct = sum(r.distinct for r in results)
    g.generated = sum(r.generated for r in results)
    g.wall = wall
    v.add_tlc(f"Net interpreter on {count} random mixed scenarios [{tag}]", g, scn.constants().replace("\n", " "))
    out = os.path.join(wd, f"runnet_{tag}.txt")
    with open(out, "w") as oh:
        for ci in range(len(chunks)):
            cwd = os.path.join(wd, f"rn_{tag}_{ci}")
            with open(os.path.join(cwd, "out.txt")) as fh:
                shutil.copyfileobj(fh, oh)
            shutil.rmtree(cwd, ignore_errors=True)
    beh = os.path.join(wd, f"beh_rand_{tag}.txt")
    n = 0
    seen_k = {}
    with open(out) as fh, open(beh, "w") as oh:
        for line in fh:
            d = vlib.decode_replay(line)
            d["scripts"] = scenarios[d["k"] - 1]
            oh.write(json.dumps(d) + "\n")
            n += 1
            seen_k[d["k"]] = seen_k.get(d["k"], 0) + 1
    # C04 at the design level: with the scripts fixed the interpreter has exactly one behaviour per scenario
    multi = [k for k, c in seen_k.items() if c != 1]
    if multi or len(seen_k) != len(scenarios):
        v.add_violation(f"Net.tla is not deterministic for fixed scripts [{tag}]: scenarios with several (or no) complete behaviours: "
                        f"{multi[:5]} / {len(seen_k)} of {len(scenarios)} scenarios completed", {"scenarios": multi[:5]}, {"suite": "net", "kind": "spec_nondeterminism"})
        return
    v.cov["scenarios_with_exactly_one_behaviour"] = v.cov.get("scenarios_with_exactly_one_behaviour", 0) + len(seen_k)
    cfgp = os.path.join(wd, f"cfg_rand_{tag}.json")
    with open(cfgp, "w") as fh:
        json.dump(hc, fh)
    shards, total = vlib.shard_lines(beh, wd, vlib.NCPU, prefix=f"sh_rand_{tag}_")
    log(f"[{prop}] Run_Net[{tag}]: {total} random mixed scenarios interpreted by TLC in {g.wall:.1f}s")
    cmds = [["net", "replay", s_, "--cfg", cfgp] for s_ in shards if os.path.getsize(s_) > 0]
    vlib.build_harness_heap()
    outs = vlib.run_vh_parallel(cmds) + vlib.run_vh_parallel(cmds, binary=vlib.VHH)     # both event-set backends
    tot = vlib.collect(v, outs, "net", f"running random mixed scenarios [{tag}]")
    v.cov["traces_validated_against_impl"] += int(tot.get("replays", 0))
    v.cov["evaluations"] += int(tot.get("checks", 0))
    v.cov["distinct_nontrivial"] += int(tot.get("nontrivial", 0))
    v.cov.setdefault("gen_runs", []).append({"scenario_family": "random:" + tag, "scenarios": total, "classes": tot.get("extra", {})})
    seen = set()
    for m in tot.get("mismatches", []):
        f = m.get("field")
        if f in seen:
            continue
        seen.add(f)
        v.add_violation(f"[random {tag}] {f}: expected {json.dumps(m.get('expected'))[:200]} got {json.dumps(m.get('got'))[:200]}", m,
                        {"suite": "net", "field": f, "family": "random:" + tag})


def random_families(v, wd, prop, tier):
    k = int(os.environ.get("VERIF_NET_RANDOM", "0")) or (200 if tier == "quick" else 3000)
    run_random(v, wd, prop, Scn("mixQ", topo="T2", pol="PolQueue", tx="TxLin", lim="Lim128", stack="Stack012", stages="Stages212",
                                catch="CatchB", max_inv=1000, max_t=14), k, "mixQ")
    run_random(v, wd, prop, Scn("mixD", topo="T2", pol="PolDrop", tx="TxLin", stack="One0", max_inv=1000, max_t=14), k, "mixD")
    run_random(v, wd, prop, Scn("mixF", topo="T2", pol="PolQueue", tx="TxFast", lat="Lat0", stack="Stack2", max_inv=1000, max_t=14), k, "mixF")
    run_random(v, wd, prop, Scn("mixR", topo="T1R", pol="PolQueue", tx="TxLin", lim="Lim200", stack="One0", max_inv=1000, max_t=14), k, "mixR")
    run_random(v, wd, prop, Scn("mixT3", topo="T3", pol="PolQueue", tx="TxLin", stack="Stack012", stages="Stages212", max_inv=1000, max_t=14), k, "mixT3")
    # the same topology wired during the run: a.o2 -> c.t is connected by module a right before its first use, from the
    # live (possibly transmitting) channel of a.out as template; the specification does not distinguish the two
    run_random(v, wd, prop, Scn("mixT3L", topo="T3", pol="PolQueue", tx="TxLin", max_inv=1000, max_t=14, late_wire=True), k, "mixT3L")
    run_random(v, wd, prop, Scn("mixT3LD", topo="T3", pol="PolDrop", tx="TxLin", max_inv=1000, max_t=14, late_wire=True), k, "mixT3LD")


def c07(tier):
    v = Verdict("C07", tier)
    vlib.build_harness()
    wd = workdir("C07")
    n = 5 if tier == "quick" else 6
    fam = [
        Scn("drop", pol="PolDrop", max_inv=n),
        Scn("queue", pol="PolQueue", max_inv=n),
        Scn("queue128", pol="PolQueue", lim="Lim128", max_inv=n),
        Scn("queue0", pol="PolQueue", lim="Lim0", max_inv=n - 1),
        Scn("unlimited_rate", tx="TxZero", pol="PolQueue", max_inv=n - 1),
        Scn("fast_queue", tx="TxFast", pol="PolQueue", lat="Lat0", max_inv=n),
        Scn("fast_drop_lat1", tx="TxFast", pol="PolDrop", lat="Lat1", max_inv=n - 1),
        # jitter of 1 us on a 1 ms tick grid: arrivals stay inside their tick, busy periods must not be stretched by the jitter
        Scn("jitter_drop", pol="PolDrop", max_inv=n, jitter_ns=1000),
        Scn("jitter_queue", pol="PolQueue", lim="Lim128", max_inv=n, jitter_ns=1000),
        # messages put into the event set from outside before the run (handle_message_on / add_message_onto), competing with
        # the modules' own traffic for the channel
        Scn("inject_queue", pol="PolQueue", max_inv=n - 1, inject="InjectMix"),
        # both ends of one connection send at once: every direction has its own busy flag and queue
        Scn("bidir_queue", topo="T1R", menu="MenuBidir", start="StartBidir", pol="PolQueue", max_inv=n + 1),
        Scn("bidir_drop", topo="T1R", menu="MenuBidir", start="StartBidir", pol="PolDrop", max_inv=n + 1),
    ]
    if tier == "thorough":
        fam.append(Scn("queue_lat0", pol="PolQueue", lat="Lat0", max_inv=n))
        fam.append(Scn("queue200_fast", tx="TxFast", pol="PolQueue", lim="Lim200", lat="Lat0", max_inv=n))
    for s in fam:
        run_scn(v, wd, "C07", s)
    random_families(v, wd, "C07", tier)
    # "with zero jitter deliveries preserve offer order" on the channel whose small messages have a transmission time that
    # rounds to zero: the interpreter (which the real simulation reproduces, see the fast_* families above) breaks it when
    # the un-busy notification starts queued zero-time messages at the very instant the previous message leaves (F-C07-2)
    fq = next(s for s in fam if s.name == "fast_queue")
    r = tlc("MC_Net", f"CONSTANTS {fq.constants()}\nSPECIFICATION Spec\nINVARIANTS OfferOrder\nCHECK_DEADLOCK FALSE\n", wd)
    v.add_tlc("Net: OfferOrder [fast_queue]", r, fq.constants().replace("\n", " "))
    if r.violation:
        v.add_violation("deliveries do not preserve offer order on a zero-jitter channel: a queued message whose transmission time rounds to zero "
                        "is started by the un-busy notification at the instant the previous message leaves the channel and overtakes it "
                        "(TLC counterexample to OfferOrder in Net.tla; the real simulation reproduces the interpreter's log in the fast_queue family)",
                        {"tlc_counterexample": r.tail[-3000:]},
                        {"suite": "net", "offer_order": True, "queued_message_with_zero_transmission_time": True})
    v.cov["rule"] = ("sender scripts chosen by TLC from a 7-entry menu (bursts of 1-3 messages of 3 sizes in one handler, gaps smaller / equal "
                     "/ larger than the transmission time via self-scheduled re-sends, delayed sends) against channels with Drop, "
                     "Queue(None), Queue(128), Queue(0), bitrate 0, and a bitrate so high that small messages have a zero transmission "
                     "time; TLC checks NoStuck / BusyHasUnbusy / AccIsSum / QueueWithinLimit / NoDuplicates on the interpreter and the real "
                     "simulation must reproduce the interpreter's delivery log (who, when, in which order). Non-trivial = >= 3 deliveries")
    v.cov["exhaustive"] = True
    v.assumptions = ["zero jitter (jitter only enters C04)", "an offer made at the instant a transmission ends is resolved by event order (C03)"]
    return v.finish()


def c09(tier):
    v = Verdict("C09", tier)
    vlib.build_harness()
    wd = workdir("C09")
    n = 7 if tier == "quick" else 8
    fam = [
        Scn("life", menu="MenuLife", start="StartLife", tx="TxLin", pol="PolQueue", max_inv=n, max_t=10),
        Scn("life2stages", menu="MenuLife", start="StartLife", stages="Stages212", tx="TxZero", max_inv=n - 1, max_t=10),
        # messages injected from outside for a module that may be down when they arrive
        Scn("life_inject", menu="MenuLife", start="StartLife", tx="TxLin", pol="PolQueue", max_inv=n - 2, max_t=10, inject="InjectMix"),
        Scn("transit", topo="T2", menu="MenuTrans", start="StartTrans", tx="TxLin", pol="PolQueue", max_inv=n, max_t=10),
        # the channel lies before the transit gate: messages are in flight towards the transit module when it goes down / comes back
        Scn("transit_after_channel", topo="T3", menu="MenuTrans", start="StartTrans", tx="TxLin", pol="PolQueue", max_inv=n, max_t=10),
    ]
    for s in fam:
        run_scn(v, wd, "C09", s)
    random_families(v, wd, "C09", tier)
    # tasks and timers of a module that is shut down and restarted (requested from a task)
    import c_async
    c_async.family(v, wd, "C09", "life", 2, "ProgsLife", 16, what="module restarted from a task while another task has timers pending")
    # "after the restart it behaves like a freshly started module": the second incarnation's runtime must have the same
    # configuration as the first one (61 wake-ups in one poll; tokio::spawn only, see F-C06-1 for spawn_local)
    c_async.family(v, wd, "C09", "fan_restart62", 62, "ProgsFanRestart", 8, mc=False, module="Gen_AsyncFam", spawn="spawn",
                   what="fan-out of 61 wake-ups in the second incarnation of a restarted module")
    v.cov["rule"] = ("lifecycle scripts chosen by TLC: module b shuts down / shuts down and restarts (after 0, 1, 2 ticks) from message "
                     "handlers while a keeps sending and scheduling (messages in transit at shutdown, arrivals at the restart instant, "
                     "repeated cycles, one- and two-stage start-up); a transit module c going down while a sends through its gate. The "
                     "observation log (handlers with incarnation numbers, reset calls, restart stages at the restart time) must equal "
                     "the interpreter's. Non-trivial = >= 3 deliveries")
    v.cov["exhaustive"] = True
    v.assumptions = ["async tasks and timers of a shut-down module are covered by the C05/C06 suite",
                     "a shutdown requested in start-up stage i of a module with more stages is kept out of the menus (DESIGN C09)"]
    return v.finish()


def c13(tier):
    v = Verdict("C13", tier)
    vlib.build_harness()
    wd = workdir("C13")
    n = 6 if tier == "quick" else 7
    fam = [
        Scn("panic", menu="MenuPanic", start="StartPanic", tx="TxZero", max_inv=n, max_t=8),
        Scn("panic_catchB", menu="MenuPanic", start="StartPanic", tx="TxZero", catch="CatchB", max_inv=n, max_t=8),
        Scn("panic_pe", menu="MenuPanic", start="StartPanic", tx="TxLin", pol="PolQueue", stack="Stack012", max_inv=n - 1, max_t=8),
    ]
    # a panic while a shutdown / restart request of the same module is pending (two start-up stages: the request and the panic can
    # also sit in different stages of one start or restart)
    pr = Scn("panic_restart", menu="MenuPanicShut", start="StartPanicShut", tx="TxZero", stages="Stages212", max_inv=n - 1, max_t=8)
    fam.append(pr)
    for s in fam:
        run_scn(v, wd, "C13", s)
    random_families(v, wd, "C13", tier)
    # panics inside tasks, joined with join / try_join / not at all: confined to the task, reported exactly
    import c_async
    c_async.family(v, wd, "C13", "task_panic", 2, "ProgsPanic", 14, join_modes=True,
                   what="a task panics at any step while the other task sends / receives / sleeps; join, try_join, handle dropped")
    # the design-level statement: a module that panicked is never active again (PanickedInert is part of every TLC run above);
    # a scenario in which the real simulation lets a panicked module run again is a violation (this was finding F-C13-1,
    # repaired in /repo)
    again = [g for g in v.cov.get("gen_runs", []) if g.get("classes", {}).get("panicked_module_ran_again")]
    if again:
        n_again = sum(int(g["classes"]["panicked_module_ran_again"]) for g in again)
        sample = again[0]["classes"].get("panicked_module_ran_again_sample")
        v.add_violation(f"a module that panicked handles events again in {n_again} generated scenarios",
                        {"real_run": sample}, {"suite": "net", "panicked_module_revived": True})
    for g in v.cov.get("gen_runs", []):
        g.get("classes", {}).pop("panicked_module_ran_again_sample", None)
    v.cov["rule"] = ("panic placements chosen by TLC: any module x at_sim_start / handle_message x any occurrence, several panicking modules, "
                     "catching and non-catching stereotypes, panics after the handler already emitted messages; the simulation must not "
                     "abort, the panicked module receives nothing further, every other module's observations equal the interpreter's "
                     "(where a panicked module is simply inactive), run() reports exactly the non-catching panicked modules, and the next "
                     "scenario runs in the same process (global state stays usable)")
    v.cov["exhaustive"] = True
    return v.finish()


def c14(tier):
    v = Verdict("C14", tier)
    vlib.build_harness()
    wd = workdir("C14")
    n = 6 if tier == "quick" else 7
    fam = [
        Scn("pe2", menu="MenuPE", start="StartPE", tx="TxZero", stack="Stack2", max_inv=n, max_t=8),
        Scn("pe012", menu="MenuPE", start="StartPE", tx="TxLin", pol="PolQueue", stack="Stack012", max_inv=n, max_t=8),
        Scn("pe2_2stages", menu="MenuPE", start="StartPE", tx="TxZero", stack="Stack2", stages="Stages212", max_inv=n, max_t=8),
        # three elements: one from the default stack, two appended in ONE call by Module::stack; at_sim_end of a returns Err
        Scn("pe3_endfail", menu="MenuPE", start="StartPE", tx="TxZero", stack="Stack3", endfail="EndFailA", max_inv=n - 1, max_t=8),
    ]
    for s in fam:
        run_scn(v, wd, "C14", s)
    random_families(v, wd, "C14", tier)
    # brackets around the events of a module with tasks (wake-ups, tear-down with unfinished joined tasks): a counting element
    # must see as many event_end as event_start calls
    import c_async
    c_async.family(v, wd, "C14", "task_brackets", 2, "ProgsChan", 14, mc=False,
                   what="modules with tasks: event_start / event_end balanced over wake-ups and a tear-down that reports join errors")
    v.cov["rule"] = ("processing stacks of 0, 1 and 2 elements (first element from the simulation-wide default stack, further ones appended "
                     "by Module::stack), every message tagged by TLC with the element that consumes it (or none): event_start / incoming / "
                     "handler / event_end entries of every start-up stage, message and tear-down must equal the interpreter's bracket "
                     "structure")
    v.cov["exhaustive"] = True
    v.assumptions = ["brackets around timer wake-ups are checked for well-formedness in the async suite"]
    return v.finish()


def _replay(prop, path):
    vlib.build_harness()
    wd = workdir(prop + "_replay")
    with open(path) as fh:
        d = json.load(fh).get("detail", {})
    p = os.path.join(wd, "beh.txt")
    with open(p, "w") as fh:
        fh.write(json.dumps(d.get("behaviour")) + "\n")
    cfgp = os.path.join(wd, "cfg.json")
    with open(cfgp, "w") as fh:
        json.dump(d.get("cfg"), fh)
    heap = d.get("backend") == "heap"
    if heap:
        vlib.build_harness_heap()
    out = vlib.run_vh_parallel([["net", "replay", p, "--cfg", cfgp]], binary=vlib.VHH if heap else None)[0]
    for m in out.get("mismatches", []):
        m.pop("behaviour", None)
    log(json.dumps(out)[:4000])
    return 1 if out.get("crash") or out.get("hang") or out.get("mismatch_count") else 0


def c07_replay(path):
    return _replay("C07", path)


def c09_replay(path):
    return _replay("C09", path)


def c13_replay(path):
    return _replay("C13", path)


def c14_replay(path):
    return _replay("C14", path)
