"""Shared plumbing for the /verif checks: TLC runner, harness runner, evidence, findings."""
import hashlib
import json
import os
import re
import shutil
import subprocess
import sys
import time

ROOT = os.path.dirname(os.path.dirname(os.path.abspath(__file__)))
SPECS = os.path.join(ROOT, "specs")
WORK = os.path.join(ROOT, "work")
HARNESS = os.path.join(ROOT, "harness")
VH = os.path.join(HARNESS, "target", "release", "vh")
# the same harness sources built against des without the `cqueue` feature (BinaryHeap event set): suites rt / net / asyncm
HARNESS_HEAP = os.path.join(os.path.dirname(HARNESS), "harness_heap")
VHH = os.path.join(HARNESS_HEAP, "target", "release", "vhh")
NCPU = min(16, os.cpu_count() or 4)


class ToolError(Exception):
    pass


def log(*a):
    print(*a, flush=True)


def workdir(name):
    d = os.path.join(WORK, name)
    shutil.rmtree(d, ignore_errors=True)
    os.makedirs(d, exist_ok=True)
    return d


def seed():
    try:
        return int(os.environ.get("VERIF_SEED", "1"))
    except ValueError:
        return 1


# ---------------------------------------------------------------- harness build
_built = False


def build_harness():
    """(Re)build the Rust harness against /repo's current working tree (hooks on)."""
    global _built
    if _built:
        return
    env = dict(os.environ)
    env["CARGO_NET_OFFLINE"] = "true"
    t0 = time.time()
    p = subprocess.run(["cargo", "build", "--release", "--offline", "-q"], cwd=HARNESS, env=env,
                       stdout=subprocess.PIPE, stderr=subprocess.STDOUT, text=True)
    if p.returncode != 0:
        sys.stdout.write(p.stdout[-6000:])
        raise ToolError("cargo build of the harness failed")
    log(f"[build] harness built in {time.time() - t0:.1f}s")
    _built = True


_built_heap = False


def build_harness_heap():
    """(Re)build the heap-backend harness (des without the `cqueue` feature) against /repo's current working tree."""
    global _built_heap
    if _built_heap:
        return
    env = dict(os.environ)
    env["CARGO_NET_OFFLINE"] = "true"
    t0 = time.time()
    p = subprocess.run(["cargo", "build", "--release", "--offline", "-q"], cwd=HARNESS_HEAP, env=env,
                       stdout=subprocess.PIPE, stderr=subprocess.STDOUT, text=True)
    if p.returncode != 0:
        sys.stdout.write(p.stdout[-6000:])
        raise ToolError("cargo build of the heap-backend harness failed")
    log(f"[build] heap-backend harness built in {time.time() - t0:.1f}s")
    _built_heap = True


# ---------------------------------------------------------------- TLC
class TlcResult:
    def __init__(self):
        self.ok = False          # finished without any error
        self.violation = False   # invariant / property / postcondition violated
        self.generated = 0
        self.distinct = 0
        self.depth = 0
        self.printed = []        # raw payloads of <<"REPLAY", "...">> lines
        self.tail = ""
        self.wall = 0.0
        self.coverage = {}
        self.rejected = None


_RE_STATES = re.compile(r"(\d+) states generated, (\d+) distinct states found")
_RE_DEPTH = re.compile(r"depth of the complete state graph search is (\d+)")
_RE_COV = re.compile(r"^<(\w+) line (\d+), col \d+ to line \d+, col \d+ of module (\w+)>: (\d+):(\d+)")


def tlc(module, cfg_text, wd, workers=None, timeout=1800, env=None, simulate=None, extra=None,
        keep_printed=True, printed_to=None, jvm=None, coverage=False):
    """Run TLC on specs/<module>.tla with the given config text inside work dir `wd`.

    All spec modules are copied next to the config so that EXTENDS/INSTANCE resolve.
    `printed_to`: path that receives the payload of every <<"REPLAY", ...>> line (raw, one per line)
    instead of keeping them in memory.
    """
    os.makedirs(wd, exist_ok=True)
    for f in os.listdir(SPECS):
        if f.endswith(".tla"):
            shutil.copy(os.path.join(SPECS, f), os.path.join(wd, f))
    cfg = os.path.join(wd, module + "_run.cfg")
    with open(cfg, "w") as fh:
        fh.write(cfg_text)
    md = os.path.join(wd, "md_" + module)
    shutil.rmtree(md, ignore_errors=True)
    cmd = ["tlc", "-metadir", md, "-cleanup", "-noGenerateSpecTE", "-config", cfg]
    cmd += ["-workers", str(workers or NCPU)]
    if coverage:
        cmd += ["-coverage", "1"]
    if simulate:
        cmd += ["-simulate", simulate]
    if extra:
        cmd += extra
    cmd += [os.path.join(wd, module + ".tla")]
    e = dict(os.environ)
    e["JAVA_TOOL_OPTIONS"] = jvm or "-Xss512m"      # recursive operators over long sequences need a deep stack
    if env:
        e.update(env)
    res = TlcResult()
    t0 = time.time()
    out_fh = open(printed_to, "w") if printed_to else None
    tail = []
    saw_ok = False
    saw_bad = False
    try:
        p = subprocess.Popen(["timeout", str(timeout)] + cmd, cwd=wd, env=e, stdout=subprocess.PIPE,
                             stderr=subprocess.STDOUT, text=True, errors="replace")
        for line in p.stdout:
            if line.startswith('<<"REPLAY", '):
                payload = line[len('<<"REPLAY", '):].rstrip()
                if payload.endswith(">>"):
                    payload = payload[:-2]
                if out_fh:
                    out_fh.write(payload + "\n")
                elif keep_printed:
                    res.printed.append(payload)
                continue
            if "No error has been found" in line:
                saw_ok = True
            if ("is violated" in line or line.startswith("Error: Action property") or line.startswith("Error: Invariant")
                    or "Temporal properties were violated" in line or line.startswith("Error: Postcondition")):
                saw_bad = True
            tail.append(line)
            if len(tail) > 400:
                del tail[:200]
            m = _RE_STATES.search(line)
            if m:
                res.generated, res.distinct = int(m.group(1)), int(m.group(2))
            m = _RE_DEPTH.search(line)
            if m:
                res.depth = int(m.group(1))
            m = _RE_COV.match(line)
            if m:
                res.coverage[m.group(1)] = res.coverage.get(m.group(1), 0) + int(m.group(4))
            if line.startswith('<<"REJECTED"'):
                res.rejected = line.strip()
        rc = p.wait()
    finally:
        if out_fh:
            out_fh.close()
    res.wall = time.time() - t0
    res.tail = "".join(tail[-120:])
    shutil.rmtree(md, ignore_errors=True)
    text = "".join(tail)
    if rc == 124:
        raise ToolError(f"TLC timed out on {module}")
    if saw_bad or (res.rejected and rc != 0):
        res.violation = True
    elif rc == 0 and (saw_ok or simulate):
        res.ok = True
    else:
        raise ToolError(f"TLC failed on {module} (rc={rc}):\n{res.tail}")
    return res


def decode_replay(payload):
    """payload is a TLA+ string literal containing JSON."""
    return json.loads(json.loads(payload))


# ---------------------------------------------------------------- harness runs
def run_vh(args, stdin_path=None, timeout=3600):
    p = subprocess.run([VH] + args, stdout=subprocess.PIPE, stderr=subprocess.PIPE, text=True,
                       timeout=timeout, stdin=open(stdin_path) if stdin_path else None)
    return p


def shard_lines(src_path, wd, n, prefix="shard"):
    """Split a file of lines round-robin into n shard files; returns (paths, total)."""
    paths = [os.path.join(wd, f"{prefix}{i}.txt") for i in range(n)]
    fhs = [open(p, "w") for p in paths]
    total = 0
    with open(src_path) as src:
        for i, line in enumerate(src):
            fhs[i % n].write(line)
            total += 1
    for fh in fhs:
        fh.close()
    return paths, total


def run_vh_parallel(arg_lists, timeout=3600, binary=None):
    """Run several vh processes concurrently. Each must print one JSON summary as its last stdout line.

    Returns a list of dicts; a crashed worker yields {"crash": rc, "stderr": ...}.
    """
    # stdout carries the one-line JSON summary; stderr goes to a file: a pipe that nobody drains while the other workers are
    # being waited for blocks a talkative worker (des prints a warning whenever a second runtime waits for the simulation lock)
    import tempfile
    procs = []
    for args in arg_lists:
        ef = tempfile.TemporaryFile(mode="w+")
        procs.append((subprocess.Popen([binary or VH] + args, stdout=subprocess.PIPE, stderr=ef, text=True), ef))
    out = []
    deadline = time.time() + timeout

    def err_tail(ef):
        try:
            ef.seek(0, 2)
            n = ef.tell()
            ef.seek(max(0, n - 2000))
            return ef.read()
        except OSError:
            return ""
        finally:
            ef.close()
    # read all stdouts concurrently as well
    from concurrent.futures import ThreadPoolExecutor

    def wait(pe):
        p, ef = pe
        try:
            so, _ = p.communicate(timeout=max(1, deadline - time.time()))
            return so, False
        except subprocess.TimeoutExpired:
            p.kill()
            so, _ = p.communicate()
            return so, True
    with ThreadPoolExecutor(max_workers=max(1, len(procs))) as ex:
        waited = list(ex.map(wait, procs))
    for args, (p, ef), (so, timed_out) in zip(arg_lists, procs, waited):
        se = err_tail(ef)
        if timed_out:
            out.append({"crash": "timeout", "args": args, "stderr": se[-2000:], "stdout_tail": so[-2000:]})
            continue
        lines = [ln for ln in so.splitlines() if ln.strip()]
        summary = None
        if p.returncode == 0 and lines:
            try:
                summary = json.loads(lines[-1])
            except json.JSONDecodeError:
                summary = None
        if summary is None:
            out.append({"crash": p.returncode, "args": args, "stderr": se[-2000:],
                        "stdout_tail": "\n".join(lines[-5:])})
        else:
            out.append(summary)
    # a worker that reported a hang is run again on its own, with the other workers gone: only a hang that repeats is
    # a property of the code under test (the first one may be a starved process on a loaded machine)
    for i, (args, o) in enumerate(zip(arg_lists, out)):
        if isinstance(o, dict) and "hang" in o and "--hang-secs" not in args:
            log(f"[vh] worker reported no progress (20 s of CPU time or 5 min of wall time on one unit of work), re-running it alone: {' '.join(args)[:100]} :: {json.dumps(o['hang'])[:300]}")
            try:
                r = subprocess.run([binary or VH] + args + ["--hang-secs", "60"], stdout=subprocess.PIPE, stderr=subprocess.DEVNULL, text=True,
                                   timeout=timeout)
                lines = [ln for ln in r.stdout.splitlines() if ln.strip()]
                again = json.loads(lines[-1]) if r.returncode == 0 and lines else None
            except (subprocess.TimeoutExpired, json.JSONDecodeError):
                again = None
            if again is not None:
                out[i] = again
                if "hang" in again:
                    break          # confirmed on an idle machine: the remaining reports stand as they are
                log(f"[vh] a worker reported a stall that did not repeat when run alone: {' '.join(args)[:120]}")
    return out


def collect(v, outs, suite, what):
    """Common handling of worker outputs: crashes and hangs become violations; returns merged summary."""
    good = []
    for o in outs:
        if "crash" in o:
            v.add_violation(f"harness worker crashed (process died) while {what}", o, {"suite": suite, "kind": "crash"})
        elif "hang" in o:
            v.add_violation(f"code under test did not return within the watchdog limit while {what}", o["hang"],
                            {"suite": suite, "kind": "hang"})
        else:
            good.append(o)
    return merge_summaries(good)


def merge_summaries(summaries):
    """Sum numeric fields, concatenate list fields."""
    tot = {}
    for s in summaries:
        for k, v in s.items():
            if isinstance(v, bool):
                tot[k] = tot.get(k, False) or v
            elif isinstance(v, (int, float)):
                tot[k] = tot.get(k, 0) + v
            elif isinstance(v, list):
                tot.setdefault(k, []).extend(v)
            elif isinstance(v, dict):
                d = tot.setdefault(k, {})
                for kk, vv in v.items():
                    if isinstance(vv, (int, float)):
                        d[kk] = d.get(kk, 0) + vv
                    else:
                        d[kk] = vv
            else:
                tot[k] = v
    return tot


# ---------------------------------------------------------------- verdicts
def load_findings():
    p = os.path.join(ROOT, "known_findings.json")
    if not os.path.exists(p):
        return []
    with open(p) as fh:
        return json.load(fh)


def finding_matches(f, prop, viol):
    """A finding matches a violation iff same property, open, and every key of its signature
    equals the corresponding key of the violation's `sig` dict (computed from the scenario)."""
    if f.get("property") != prop or f.get("status") != "open":
        return False
    sig = f.get("signature") or {}
    vs = viol.get("sig") or {}
    return bool(sig) and all(vs.get(k) == v for k, v in sig.items())


class Verdict:
    def __init__(self, prop, tier):
        self.prop = prop
        self.tier = tier
        self.violations = []     # dicts: what, scenario/replay payload, sig
        self.known = []
        self.t0 = time.time()
        self.cov = {"states": 0, "transitions": 0, "traces_validated_against_impl": 0, "samples": [],
                    "evaluations": 0, "distinct_nontrivial": 0, "tlc_runs": [], "exhaustive": False}
        self.assumptions = []

    def add_tlc(self, name, res, note=""):
        self.cov["states"] += res.distinct
        self.cov["transitions"] += res.generated
        log(f"[tlc] {name}: {res.distinct} distinct / {res.generated} generated, {res.wall:.1f}s")
        self.cov["tlc_runs"].append({"name": name, "distinct_states": res.distinct, "states_generated": res.generated,
                                     "depth": res.depth, "wall_s": round(res.wall, 1), "note": note})

    def spec_violation(self, name, res):
        """A TLC run on the *specification* failed: the design (as transcribed) breaks the property."""
        self.violations.append({"what": f"TLC reports a violation in {name}", "kind": "spec",
                                "detail": res.tail[-3000:], "sig": {"suite": "spec", "model": name}})

    def add_violation(self, what, detail, sig=None):
        self.violations.append({"what": what, "kind": "impl", "detail": detail, "sig": sig or {}})

    def finish(self, level="model_checking"):
        findings = load_findings()
        real = []
        seen_known = {}
        for v in self.violations:
            hit = next((f for f in findings if finding_matches(f, self.prop, v)), None)
            if hit:
                seen_known.setdefault(hit["id"], hit)
            else:
                real.append(v)
        for f in seen_known.values():
            log(f"KNOWN-FINDING: property={self.prop} {f['what']}")
        self.cov["known_findings_seen"] = sorted(seen_known)
        rc = 0
        replays = []
        if real:
            os.makedirs(os.path.join(ROOT, "replays"), exist_ok=True)
            # one replay file per distinct violation text, at most 5
            for v in real[:5]:
                blob = json.dumps(v, sort_keys=True, default=str)
                h = hashlib.sha1(blob.encode()).hexdigest()[:10]
                path = os.path.join(ROOT, "replays", f"{self.prop}-{h}.json")
                with open(path, "w") as fh:
                    json.dump(v, fh, indent=1, default=str)
                replays.append(path)
                log(f"VIOLATION property={self.prop} replay={path}")
                log(f"  what: {v['what']}")
            rc = 1
        ev = {
            "property_id": self.prop,
            "tier": self.tier,
            "seed": seed(),
            "level": level,
            "coverage": self.cov,
            "assumptions": self.assumptions,
            "wall_s": round(time.time() - self.t0, 1),
            "violations": len(real),
        }
        os.makedirs(os.path.join(ROOT, "evidence"), exist_ok=True)
        with open(os.path.join(ROOT, "evidence", f"{self.prop}.json"), "w") as fh:
            json.dump(ev, fh, indent=1, default=str)
        log(f"[{self.prop}] tier={self.tier} states={self.cov['states']} transitions={self.cov['transitions']} "
            f"replayed/validated={self.cov['traces_validated_against_impl']} violations={len(real)} "
            f"known={len(seen_known)} wall={ev['wall_s']}s")
        return rc
