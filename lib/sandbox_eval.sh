#!/bin/bash
# usage: sandbox_eval.sh <name> <seeded id> ...
# Evaluates seeded changes in a private copy of /repo and /verif (mount namespace: the copies are bind-mounted over /repo,
# /verif and /tmp), so that several evaluations can run side by side and the real /repo stays untouched.
# Result lines end up in /tmp/sb/<name>/tmp/eval_seeded.log.
set -u
name="$1"; shift
sb=/tmp/sb/$name
mkdir -p "$sb/tmp"
if [ ! -d "$sb/repo" ]; then
  rsync -a /repo/ "$sb/repo/"
fi
rsync -a --delete --exclude work --exclude replays /verif/ "$sb/verif/"
git -C "$sb/repo" checkout -q -- . 2>/dev/null
exec unshare -m bash -c "mount --bind $sb/repo /repo && mount --bind $sb/verif /verif && mount --bind $sb/tmp /tmp && bash /verif/lib/eval_seeded.sh $*"
