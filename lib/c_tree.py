"""C12: module tree order, start-up / tear-down order, builder rejections (Tree.tla)."""
import json
import os

import vlib
from vlib import Verdict, log, tlc, workdir


def c12(tier):
    v = Verdict("C12", tier)
    vlib.build_harness()
    wd = workdir("C12")
    calls = 5 if tier == "quick" else 6
    base = f'TopNames = {{"a", "ab", "b"}} SubNames = {{"a", "ab"}} MaxDepth = 3 MaxCalls = {calls} MaxFails = 1'
    r = tlc("Tree", f"CONSTANTS {base} StageChoices = {{1}}\nSPECIFICATION Spec\nINVARIANTS TreeOrderOK NoDuplicates ParentsFirst\n"
                    "PROPERTIES FailsChangeNothing\nCHECK_DEADLOCK FALSE\n", wd)
    v.add_tlc("Tree: insertion rule yields the depth-first pre-order", r, base)
    if r.violation:
        v.spec_violation("Tree", r)
    beh = os.path.join(wd, "trees.txt")
    g = tlc("Gen_Tree", f"CONSTANTS {base} StageChoices = {{}}\nSPECIFICATION GSpec\nINVARIANT Emit\nCHECK_DEADLOCK FALSE\n", wd, printed_to=beh)
    if not g.ok:
        raise vlib.ToolError("Gen_Tree failed:\n" + g.tail)
    shards, total = vlib.shard_lines(beh, wd, vlib.NCPU, prefix="sh_tree_")
    log(f"[C12] Gen_Tree: {total} insertion sequences ({calls} node calls) in {g.wall:.1f}s")
    outs = vlib.run_vh_parallel([["tree", "replay", s] for s in shards])
    tot = vlib.collect(v, outs, "tree", "building module trees")
    v.cov["traces_validated_against_impl"] += int(tot.get("replays", 0))
    v.cov["evaluations"] += int(tot.get("checks", 0))
    v.cov["distinct_nontrivial"] += int(tot.get("nontrivial", 0))
    v.cov["insertion_sequences"] = total
    v.cov["samples"].extend(tot.get("samples", [])[:1])
    seen = set()
    for m in tot.get("mismatches", []):
        if m.get("field") in seen:
            continue
        seen.add(m.get("field"))
        v.add_violation(f"{m.get('field')}: expected {json.dumps(m.get('expected'))[:300]} got {json.dumps(m.get('got'))[:300]} after calls "
                        f"{json.dumps(m.get('behaviour', {}).get('calls'))[:400]}", m, {"suite": "tree", "field": m.get("field")})
    # object paths: Path.tla (a path is a sequence of segments) against ObjectPath's string + offset + depth bookkeeping
    pc = f'Segs = {{"a", "ab", "b"}} MaxDepth = 2 MaxOps = {3 if tier == "quick" else 4}'
    pbeh = os.path.join(wd, "paths.txt")
    g = tlc("Gen_Path", f"CONSTANTS {pc}\nSPECIFICATION GSpec\nINVARIANTS Emit GateOnlyLeaf\nPROPERTIES DepthStep\nCHECK_DEADLOCK FALSE\n", wd, printed_to=pbeh)
    v.add_tlc("Path: object paths as segment sequences", g, pc)
    if g.violation:
        v.spec_violation("Path", g)
    else:
        shards, total = vlib.shard_lines(pbeh, wd, vlib.NCPU, prefix="sh_path_")
        log(f"[C12] Gen_Path: {total} operation sequences on object paths in {g.wall:.1f}s")
        outs = vlib.run_vh_parallel([["tree", "paths", s] for s in shards if os.path.getsize(s) > 0])
        tot = vlib.collect(v, outs, "tree", "operating on object paths")
        v.cov["traces_validated_against_impl"] += int(tot.get("replays", 0))
        v.cov["evaluations"] += int(tot.get("checks", 0))
        v.cov["distinct_nontrivial"] += int(tot.get("nontrivial", 0))
        v.cov["path_operation_sequences"] = total
        seen = set()
        for m in tot.get("mismatches", []):
            if m.get("field") in seen:
                continue
            seen.add(m.get("field"))
            v.add_violation(f"{m.get('field')}: expected {json.dumps(m.get('expected'))[:300]} got {json.dumps(m.get('got'))[:300]} after "
                            f"{json.dumps(m.get('behaviour'), ensure_ascii=False)[:400]}", m, {"suite": "tree", "field": m.get("field"), "kind": "path"})
    # the same order drives start-up and tear-down inside Net.tla (BootStep / EndLog): two-stage scenario family
    import c_net
    c_net.run_scn(v, wd, "C12", c_net.Scn("stages212", topo="T2", menu="MenuTrans", start="StartTrans", stages="Stages212", tx="TxZero",
                                          max_inv=4, max_t=6), mc=False)
    # tear-down must reach every module even when the run recorded errors
    c_net.run_scn(v, wd, "C12", c_net.Scn("panic_end", menu="MenuPanic", start="StartPanic", tx="TxZero", max_inv=4, max_t=6), mc=False)
    v.cov["rule"] = ("every sequence of <= 5 (6) SimBuilder::node calls over the 21 paths of depth <= 3 built from names {a, ab, b} "
                     "(shared prefixes; at most one rejected call: duplicate or missing parent), stage counts 0..2 derived from the path, "
                     "two name embeddings (incl. multi-byte): call outcome, Sim::nodes order, the (path, stage) sequence of at_sim_start, "
                     "the at_sim_end sequence, and parent/child/name lookups inside the callbacks. Non-trivial = creation order differs "
                     "from tree order or a call is rejected")
    v.cov["exhaustive"] = True
    return v.finish()


def c12_replay(path):
    vlib.build_harness()
    wd = workdir("C12_replay")
    with open(path) as fh:
        d = json.load(fh).get("detail", {})
    if "cfg" in d:
        import c_net
        return c_net._replay("C12", path)
    p = os.path.join(wd, "beh.txt")
    with open(p, "w") as fh:
        fh.write(json.dumps(d.get("behaviour")) + "\n")
    out = vlib.run_vh_parallel([["tree", "paths" if isinstance(d.get("behaviour"), list) else "replay", p]])[0]
    log(json.dumps(out, ensure_ascii=False)[:3000])
    return 1 if out.get("crash") or out.get("hang") or out.get("mismatch_count") else 0
