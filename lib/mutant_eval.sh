#!/bin/bash
# usage: mutant_eval.sh <patch.diff> <check ids...> : applies the patch to /repo, runs the checks (quick), reverts.
set -u
patch="$1"; shift
cd /repo || exit 2
if ! git diff --quiet; then echo "/repo is dirty, refusing"; exit 2; fi
if ! git apply --3way "$patch" 2>/tmp/apply.err && ! patch -p1 --no-backup-if-mismatch < "$patch" >/tmp/apply.err 2>&1; then echo "PATCH DOES NOT APPLY"; cat /tmp/apply.err; git reset -q --hard HEAD; git clean -fdq; exit 3; fi
git reset -q
rm -rf /tmp/evidence_backup; cp -r /verif/evidence /tmp/evidence_backup
for c in "$@"; do
  out=$(cd /verif && ./check "$c" --tier quick 2>&1)
  rc=$?
  echo "== $c rc=$rc"
  echo "$out" | grep -E "VIOLATION|what:|KNOWN|TOOL-ERROR" | head -6 | cut -c1-300
done
git checkout -- .
rm -rf /verif/evidence; cp -r /tmp/evidence_backup /verif/evidence
git status --short | head -3
