#!/bin/bash
# usage: eval_seeded.sh [<seeded id> ...]   (default: all of seeded/)
# Applies every seeded change to /repo in turn, runs the quick check of its property, reverts; one line per change in
# /tmp/eval_seeded.log ("rc=1" = detected).  /repo must be clean; do not run other checks meanwhile.
here="$(cd "$(dirname "$0")" && pwd)"
out=/tmp/eval_seeded.log
: > $out
ids=("$@")
if [ ${#ids[@]} -eq 0 ]; then ids=($(ls "$here/../seeded")); fi
for id in "${ids[@]}"; do
  d="$here/../seeded/$id"; prop=${id%%-*}
  res=$(bash "$here/mutant_eval.sh" "$d/patch.diff" "$prop" 2>&1)
  rc=$(echo "$res" | grep -oE "rc=[0-9]+" | head -1)
  echo "$id $rc $(echo "$res" | grep -E "PATCH DOES NOT|what:" | head -1 | cut -c1-200)" >> $out
done
echo FINISHED >> $out
