"""C20: dropping a simulation releases everything exactly once (Ownership.tla + drop accounting in the net / async suites)."""
import vlib
import c_net
import c_async
from vlib import Verdict, log, tlc, workdir

STOPS = ["never", "events:2", "events:5", "manual:3"]


class ScnStops(c_net.Scn):
    def harness_cfg(self):
        c = super().harness_cfg()
        c["stops"] = STOPS
        c["end_emit"] = True      # every module also emits messages during tear-down (never processed, must still be released)
        return c


def c20(tier):
    v = Verdict("C20", tier)
    vlib.build_harness()
    wd = workdir("C20")
    r = tlc("Ownership", "CONSTANTS FixDissolve = TRUE\nSPECIFICATION Spec\nINVARIANTS AllUserStateDropped NeverTwice NothingEarly ResidueHarmless\n"
                         "CHECK_DEADLOCK FALSE\n", wd)
    v.add_tlc("Ownership: reference graph, every drop order, 5 stopping points", r, "FixDissolve = TRUE")
    if r.violation:
        v.spec_violation("Ownership", r)
    n = 5 if tier == "quick" else 6
    fam = [
        ScnStops("backlog", pol="PolQueue", tx="TxLin", max_inv=n, max_t=6),           # stops with a backlog in the channel queue
        ScnStops("life", menu="MenuLife", start="StartLife", tx="TxLin", pol="PolQueue", max_inv=n, max_t=8),
        ScnStops("panic_pe", menu="MenuPanic", start="StartPanic", tx="TxLin", pol="PolQueue", stack="Stack012", max_inv=n - 1, max_t=8),
        ScnStops("transit", topo="T2", menu="MenuTrans", start="StartTrans", tx="TxLin", pol="PolQueue", max_inv=n, max_t=8),
        # bursts: the run ends (or is cut short) with a backlog on the channel behind / in front of the transit gate
        ScnStops("transit_backlog", topo="T2", menu="MenuTBurst", start="StartTBurst", tx="TxLin", pol="PolQueue", max_inv=n - 1, max_t=5),
        ScnStops("transit_backlog3", topo="T3", menu="MenuTBurst", start="StartTBurst", tx="TxLin", pol="PolQueue", max_inv=n - 1, max_t=5),
    ]
    for s in fam:
        c_net.run_scn(v, wd, "C20", s, mc=False)
    # state captured by tasks (blocked on timers / receives when the run ends, cancelled by a restart)
    c_async.family(v, wd, "C20", "chan", 2, "ProgsChan", 14, mc=False, what="tasks blocked on receives / timeouts when the run ends")
    c_async.family(v, wd, "C20", "life", 2, "ProgsLife", 16, mc=False, what="tasks cancelled by a restart")
    v.cov["rule"] = ("TLC: reference-graph model over 5 stopping points, all drop orders. Harness: every scenario of the backlog / lifecycle / "
                     "panic+elements / transit / transit-backlog families is run to its time limit and additionally stopped at 4 other points (never started; "
                     "event-count limit 2 and 5 with events pending and returned as remaining; started, 3 events dispatched, dropped without "
                     "finish), with a ring of gates wired in; after dropping everything the live counters of module structs, processing "
                     "elements, message bodies and task-captured values must be 0 and no value may be dropped twice; scenarios run back "
                     "to back in one process and must still match the interpreter (a new simulation behaves as in a fresh process)")
    v.cov["exhaustive"] = True
    v.assumptions = ["leaks without a skipped destructor (the empty timer slot <-> queue cycle) are not observable and carry no user state "
                     "(ResidueHarmless in Ownership.tla)"]
    return v.finish()


def c20_replay(path):
    import json
    with open(path) as fh:
        d = json.load(fh).get("detail", {})
    if "cfg" in d:
        return c_net._replay("C20", path)
    return c_async._replay("C20", path)
